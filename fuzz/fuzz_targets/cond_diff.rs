#![no_main]
//! libFuzzer target: decodes the bytes into a structured case and runs the harness oracles.
//! A failed oracle aborts with "VP-VIOLATION <property>: <signature>: <message>". With VP_ONLY=<id>
//! only that property's oracle aborts (the others are ignored so that a campaign for one property
//! is not ended by another's failure). Known findings (KNOWN_FINDINGS.txt) never abort.
use libfuzzer_sys::fuzz_target;
use std::sync::OnceLock;

static CFG: OnceLock<(Option<String>, Vec<vp::engine::Known>)> = OnceLock::new();

fuzz_target!(|data: &[u8]| {
    let (only, known) = CFG.get_or_init(|| {
        vp::panics::install_hook();
        (std::env::var("VP_ONLY").ok(), vp::engine::load_known())
    });
    for (id, f) in vp::fuzz::cond_diff(data) {
        if let Some(o) = only {
            if o != id {
                continue;
            }
        }
        if known.iter().any(|k| k.property == id && k.sig == f.sig) {
            continue;
        }
        eprintln!("VP-VIOLATION {id}: {}: {}", f.sig, f.msg);
        std::process::abort();
    }
});
