//! Counting global allocator (installed by the `vp` binary) so that "what was queued is
//! released" (C11) can be observed as live heap bytes. Counting is switched on only inside the
//! single-threaded measurement window: a shared counter would serialise the 16 worker threads.

use std::alloc::{GlobalAlloc, Layout, System};
use std::sync::atomic::{AtomicBool, AtomicIsize, Ordering};

pub struct Counting;

static LIVE: AtomicIsize = AtomicIsize::new(0);
static ENABLED: AtomicBool = AtomicBool::new(false);
static INSTALLED: AtomicBool = AtomicBool::new(false);

unsafe impl GlobalAlloc for Counting {
    unsafe fn alloc(&self, l: Layout) -> *mut u8 {
        let p = System.alloc(l);
        if ENABLED.load(Ordering::Relaxed) && !p.is_null() {
            LIVE.fetch_add(l.size() as isize, Ordering::Relaxed);
        }
        p
    }
    unsafe fn dealloc(&self, p: *mut u8, l: Layout) {
        System.dealloc(p, l);
        if ENABLED.load(Ordering::Relaxed) {
            LIVE.fetch_sub(l.size() as isize, Ordering::Relaxed);
        }
    }
    unsafe fn realloc(&self, p: *mut u8, l: Layout, new: usize) -> *mut u8 {
        let q = System.realloc(p, l, new);
        if ENABLED.load(Ordering::Relaxed) && !q.is_null() {
            LIVE.fetch_add(new as isize - l.size() as isize, Ordering::Relaxed);
        }
        q
    }
}

/// Called by the binary that installs the allocator.
pub fn mark_installed() {
    INSTALLED.store(true, Ordering::Relaxed);
}

pub fn installed() -> bool {
    INSTALLED.load(Ordering::Relaxed)
}

/// Starts a measurement window (counter reset to 0).
pub fn start() {
    LIVE.store(0, Ordering::SeqCst);
    ENABLED.store(true, Ordering::SeqCst);
}

pub fn stop() {
    ENABLED.store(false, Ordering::SeqCst);
}

/// Net bytes allocated since `start()`.
pub fn live() -> isize {
    LIVE.load(Ordering::SeqCst)
}
