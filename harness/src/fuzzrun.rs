//! Glue between the harness and the libFuzzer targets: replays the committed seed corpus in
//! process (quick tier, no nightly toolchain needed), runs a bounded coverage-guided campaign
//! with `cargo +nightly fuzz` (thorough tier), and turns artifacts into replayable violations.

use crate::engine::*;
use crate::fuzz;
use crate::util::hash_bytes;
use serde_json::{json, Value};
use std::process::Command;

pub fn hex(b: &[u8]) -> String {
    b.iter().map(|x| format!("{x:02x}")).collect()
}

pub fn unhex(s: &str) -> Vec<u8> {
    (0..s.len() / 2).filter_map(|i| u8::from_str_radix(&s[2 * i..2 * i + 2], 16).ok()).collect()
}

fn run_bytes(cx: &Cx, target: &str, data: &[u8], acc: &mut Acc) -> Check {
    let Some(f) = fuzz::target(target) else { return fail("replay-decode", format!("unknown fuzz target {target}")) };
    for (id, fl) in f(data) {
        if id == "INTERNAL" {
            acc.internal_errors.push(fl.msg);
        } else if id == cx.id {
            return Err(fl);
        } else {
            acc.count(&format!("fuzz-input-fails-other-property:{id}"));
        }
    }
    Ok(())
}

fn replay_dir(cx: &Cx, target: &str, dir: &str, phase: &str, acc: &mut Acc) -> u64 {
    let mut n = 0;
    let Ok(rd) = std::fs::read_dir(dir) else { return 0 };
    let mut files: Vec<_> = rd.filter_map(|e| e.ok()).map(|e| e.path()).filter(|p| p.is_file()).collect();
    files.sort();
    for p in files {
        let Ok(data) = std::fs::read(&p) else { continue };
        n += 1;
        let case = json!({"target": target, "hex": hex(&data)});
        let ok = acc.run_case(cx, phase, &case, |acc| run_bytes(cx, target, &data, acc));
        if ok {
            acc.note(&format!("fuzz-corpus:{target}"), true, hash_bytes(&data), || json!({"target": target, "bytes": crate::util::show_bytes(&data[..data.len().min(120)])}));
        }
    }
    n
}

pub fn replay(cx: &Cx, case: &Value, acc: &mut Acc) -> Check {
    let target = case["target"].as_str().unwrap_or("");
    let data = unhex(case["hex"].as_str().unwrap_or(""));
    run_bytes(cx, target, &data, acc)
}

/// Quick: committed seeds. Thorough: seeds + a libFuzzer campaign of a fixed number of runs.
pub fn run(cx: &Cx) -> (Acc, Value) {
    let mut acc = Acc::new();
    let mut stats = Vec::new();
    for target in fuzz::targets_for(&cx.id) {
        let seeds = format!("{VERIF_DIR}/fuzz/seeds/{target}");
        let phase = format!("fuzz:{target}");
        let n = replay_dir(cx, target, &seeds, &phase, &mut acc);
        acc.phase_info(&phase, n, false, "committed libFuzzer seed corpus replayed in process through the same oracles");
        if cx.tier == Tier::Thorough && std::env::var_os("VP_NO_FUZZ").is_none() {
            stats.push(campaign(cx, target, &mut acc));
        }
    }
    (acc, json!(stats))
}

fn campaign(cx: &Cx, target: &str, acc: &mut Acc) -> Value {
    // Fixed amounts of work (about two to three minutes each on this machine), not time quotas.
    let default_runs = match target {
        "range_diff" | "cond_diff" | "fsdir_path" => 600_000,
        "serve_sem" => 25_000,
        "accept_encoding" => 300_000,
        "serve_total" => 150_000,
        _ => 40_000,
    };
    let runs: u64 = std::env::var("VP_FUZZ_RUNS").ok().and_then(|s| s.parse().ok()).unwrap_or(default_runs);
    let fuzz_dir = format!("{VERIF_DIR}/fuzz");
    let corpus = format!("{fuzz_dir}/corpus/{target}-{}-{}", cx.id, std::process::id());
    let artifacts = format!("{fuzz_dir}/artifacts/{target}-{}-{}/", cx.id, std::process::id());
    let _ = std::fs::remove_dir_all(&corpus);
    let _ = std::fs::create_dir_all(&corpus);
    let _ = std::fs::create_dir_all(&artifacts);
    let t0 = std::time::Instant::now();
    let seeds = format!("{fuzz_dir}/seeds/{target}");
    let dict = format!("{fuzz_dir}/dict/{target}.dict");
    let mut cmd = Command::new("cargo");
    cmd.current_dir(format!("{VERIF_DIR}/harness"))
        .env("CARGO_NET_OFFLINE", "true")
        .env("VP_ONLY", &cx.id)
        .args(["+nightly", "fuzz", "run", "-O", "-a", "--fuzz-dir", &fuzz_dir, target, &corpus, &seeds, "--"])
        .arg(format!("-runs={runs}"))
        .arg(format!("-seed={}", cx.seed.wrapping_add(1) & 0x7fff_ffff))
        .args(["-max_len=512", "-len_control=0", "-print_final_stats=1", "-timeout=20", "-rss_limit_mb=4096"])
        .arg(format!("-artifact_prefix={artifacts}"));
    if std::path::Path::new(&dict).exists() {
        cmd.arg(format!("-dict={dict}"));
    }
    {
        // the campaign ends with this process
        use std::os::unix::process::CommandExt;
        unsafe {
            cmd.pre_exec(|| {
                libc::prctl(libc::PR_SET_PDEATHSIG, libc::SIGKILL);
                Ok(())
            });
        }
    }
    // Run the campaign while keeping the watchdog's progress counter moving.
    let log_path = format!("{artifacts}campaign.log");
    let out = (|| -> std::io::Result<std::process::Output> {
        let f = std::fs::File::create(&log_path)?;
        let mut child = cmd.stdout(f.try_clone()?).stderr(f).spawn()?;
        let status = loop {
            if let Some(st) = child.try_wait()? {
                break st;
            }
            std::thread::sleep(std::time::Duration::from_secs(1));
            PROGRESS.fetch_add(1, std::sync::atomic::Ordering::Relaxed);
        };
        Ok(std::process::Output { status, stdout: std::fs::read(&log_path).unwrap_or_default(), stderr: Vec::new() })
    })();
    let _ = std::fs::remove_file(&log_path);
    let mut info = json!({"target": target, "runs_requested": runs});
    match out {
        Err(e) => {
            acc.internal_errors.push(format!("cannot run cargo +nightly fuzz: {e}"));
        }
        Ok(o) => {
            let text = format!("{}{}", String::from_utf8_lossy(&o.stdout), String::from_utf8_lossy(&o.stderr));
            let stat = |k: &str| text.lines().find_map(|l| l.strip_prefix(&format!("stat::{k}:")).and_then(|v| v.trim().parse::<u64>().ok()));
            info["executed_units"] = json!(stat("number_of_executed_units"));
            info["new_units_added"] = json!(stat("new_units_added"));
            info["exit_code"] = json!(o.status.code());
            // Artifacts: decode and re-check in process.
            let mut arts: Vec<_> = std::fs::read_dir(&artifacts).map(|r| r.filter_map(|e| e.ok()).map(|e| e.path()).collect()).unwrap_or_default();
            arts.sort();
            let mut reproduced = false;
            for a in &arts {
                if let Ok(data) = std::fs::read(a) {
                    let case = json!({"target": target, "hex": hex(&data)});
                    let ok = acc.run_case(cx, &format!("fuzz:{target}"), &case, |acc| run_bytes(cx, target, &data, acc));
                    if !ok {
                        reproduced = true;
                    }
                }
            }
            if !o.status.success() && !reproduced {
                let tail: Vec<&str> = text.lines().rev().take(12).collect();
                acc.internal_errors.push(format!(
                    "libFuzzer campaign on {target} ended with {:?} but no artifact reproduces a violation of {} in process: {}",
                    o.status.code(),
                    cx.id,
                    tail.into_iter().rev().collect::<Vec<_>>().join(" / ")
                ));
            }
            // Measure what the campaign's corpus contains.
            let n = replay_dir(cx, target, &corpus, &format!("fuzz-campaign:{target}"), acc);
            info["corpus_units_replayed"] = json!(n);
            acc.phase_info(
                &format!("fuzz-campaign:{target}"),
                stat("number_of_executed_units").unwrap_or(0),
                false,
                &format!("libFuzzer campaign (-runs={runs}), corpus of {n} units replayed through the classifier, {:.1} s", t0.elapsed().as_secs_f64()),
            );
            acc.evals += stat("number_of_executed_units").unwrap_or(0);
        }
    }
    let _ = std::fs::remove_dir_all(&corpus);
    let _ = std::fs::remove_dir_all(&artifacts);
    info
}
