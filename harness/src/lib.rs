pub mod util;
