pub mod alloc;
pub mod drain;
pub mod engine;
pub mod entity;
pub mod fuzz;
pub mod fuzzrun;
pub mod panics;
pub mod reqgen;
pub mod sched;
pub mod served;
pub mod util;
pub mod oracle {
    pub mod inflate;
    pub mod multipart;
    pub mod range_ref;
}
pub mod props;
