//! The common engine: tiers, seeds, sharded proptest / enumeration drivers, accumulators,
//! known findings, evidence and replay files.

use crate::util::{fingerprint, mix};
use proptest::strategy::{Strategy, ValueTree};
use proptest::test_runner::{Config, RngAlgorithm, TestCaseError, TestError, TestRng, TestRunner};
use rayon::prelude::*;
use serde::Serialize;
use serde_json::{json, Value};
use std::collections::{BTreeMap, HashSet};
use std::panic::{catch_unwind, AssertUnwindSafe};
use std::sync::atomic::{AtomicU64, Ordering};

pub const SHARDS: u64 = 16;
pub const VERIF_DIR: &str = "/verif";

#[derive(Clone, Copy, PartialEq, Eq, Debug)]
pub enum Tier {
    Quick,
    Thorough,
}

impl Tier {
    pub fn name(self) -> &'static str {
        match self {
            Tier::Quick => "quick",
            Tier::Thorough => "thorough",
        }
    }
    /// Picks the quick or thorough value.
    pub fn pick<T>(self, quick: T, thorough: T) -> T {
        match self {
            Tier::Quick => quick,
            Tier::Thorough => thorough,
        }
    }
}

/// A failed oracle. `sig` is the canonical signature of the failing input class (used to match
/// known findings and to de-duplicate); `msg` is for humans.
#[derive(Clone, Debug)]
pub struct Fail {
    pub sig: String,
    pub msg: String,
}

pub type Check = Result<(), Fail>;

pub fn fail<T>(sig: impl Into<String>, msg: impl Into<String>) -> Result<T, Fail> {
    Err(Fail {
        sig: sig.into(),
        msg: msg.into(),
    })
}

#[macro_export]
macro_rules! ensure {
    ($cond:expr, $sig:expr, $($arg:tt)+) => {
        if !($cond) {
            return Err($crate::engine::Fail { sig: ($sig).to_string(), msg: format!($($arg)+) });
        }
    };
}

#[derive(Clone, Debug)]
pub struct Violation {
    pub phase: String,
    pub sig: String,
    pub msg: String,
    pub case: Value,
}

#[derive(Clone, Debug)]
pub struct Known {
    pub property: String,
    pub sig: String,
    pub text: String,
}

pub struct Cx {
    pub id: String,
    pub tier: Tier,
    pub seed: u64,
    pub known: Vec<Known>,
}

impl Cx {
    pub fn is_known(&self, sig: &str) -> bool {
        self.known.iter().any(|k| k.property == self.id && k.sig == sig)
    }
    pub fn sub_seed(&self, phase: &str, shard: u64) -> u64 {
        mix(mix(self.seed, crate::util::hash_bytes(phase.as_bytes())), shard)
    }
    pub fn quick(&self) -> bool {
        self.tier == Tier::Quick
    }
}

pub static PROGRESS: AtomicU64 = AtomicU64::new(0);

/// Set by the libFuzzer entry points: drain only small prefixes of large bodies (throughput).
pub static LIGHT: std::sync::atomic::AtomicBool = std::sync::atomic::AtomicBool::new(false);

pub fn light() -> bool {
    LIGHT.load(Ordering::Relaxed)
}

const MAX_SAMPLES_PER_LABEL: usize = 2;
const MAX_VIOLATIONS: usize = 8;

#[derive(Default)]
pub struct Acc {
    pub evals: u64,
    pub labels: BTreeMap<String, u64>,
    pub distinct: HashSet<u64>,
    pub samples: BTreeMap<String, Vec<Value>>,
    pub counters: BTreeMap<String, u64>,
    pub violations: Vec<Violation>,
    pub known_hits: BTreeMap<String, u64>,
    pub internal_errors: Vec<String>,
    pub phases: Vec<Value>,
    pub frozen: bool,
}

impl Acc {
    pub fn new() -> Acc {
        Acc::default()
    }

    pub fn eval(&mut self) {
        if !self.frozen {
            self.evals += 1;
            if self.evals & 0x3ff == 0 {
                PROGRESS.fetch_add(1, Ordering::Relaxed);
            }
        }
    }

    /// Classify the current case. `nontrivial` cases are counted by fingerprint.
    pub fn note(&mut self, label: &str, nontrivial: bool, fp: u64, sample: impl FnOnce() -> Value) {
        if self.frozen {
            return;
        }
        *self.labels.entry(label.to_string()).or_insert(0) += 1;
        if nontrivial {
            self.distinct.insert(fp);
        }
        let have = self.samples.get(label).map_or(0, |v| v.len());
        if have < MAX_SAMPLES_PER_LABEL {
            self.samples.entry(label.to_string()).or_default().push(sample());
        }
    }

    pub fn count(&mut self, counter: &str) {
        self.count_n(counter, 1);
    }

    pub fn count_n(&mut self, counter: &str, n: u64) {
        if !self.frozen {
            *self.counters.entry(counter.to_string()).or_insert(0) += n;
        }
    }

    pub fn violation(&mut self, phase: &str, f: Fail, case: Value) {
        if self.violations.iter().any(|v| v.sig == f.sig) || self.violations.len() >= MAX_VIOLATIONS {
            return;
        }
        let v = Violation {
            phase: phase.to_string(),
            sig: f.sig,
            msg: f.msg,
            case,
        };
        // also visible to the watchdog, should the run hang later on
        if let Ok(mut u) = UNSHRUNK.lock() {
            if u.len() < MAX_VIOLATIONS && !u.iter().any(|x| x.sig == v.sig) {
                u.push(v.clone());
            }
        }
        self.violations.push(v);
    }

    /// Runs one enumerated case: counts it, shields against harness panics, matches known
    /// findings, records a violation. Returns true if the case passed (or was a known finding).
    pub fn run_case<T: Serialize>(
        &mut self,
        cx: &Cx,
        phase: &str,
        case: &T,
        f: impl FnOnce(&mut Acc) -> Check,
    ) -> bool {
        self.eval();
        let _guard = CaseGuard::enter(case, phase);
        let r = catch_unwind(AssertUnwindSafe(|| f(self)));
        match r {
            Ok(Ok(())) => true,
            Ok(Err(fl)) => {
                if cx.is_known(&fl.sig) {
                    *self.known_hits.entry(fl.sig).or_insert(0) += 1;
                    true
                } else {
                    let v = serde_json::to_value(case).unwrap_or(Value::Null);
                    self.violation(phase, fl, v);
                    false
                }
            }
            Err(p) => {
                let m = crate::panics::payload_msg(&p);
                if self.internal_errors.len() < 4 {
                    self.internal_errors.push(format!(
                        "harness panic in phase {phase}: {m}; case={}",
                        serde_json::to_string(case).unwrap_or_default()
                    ));
                }
                false
            }
        }
    }

    pub fn merge(&mut self, o: Acc) {
        self.evals += o.evals;
        for (k, v) in o.labels {
            *self.labels.entry(k).or_insert(0) += v;
        }
        self.distinct.extend(o.distinct);
        for (k, v) in o.samples {
            let e = self.samples.entry(k).or_default();
            for s in v {
                if e.len() < MAX_SAMPLES_PER_LABEL {
                    e.push(s);
                }
            }
        }
        for (k, v) in o.counters {
            *self.counters.entry(k).or_insert(0) += v;
        }
        for v in o.violations {
            if !self.violations.iter().any(|x| x.sig == v.sig) && self.violations.len() < MAX_VIOLATIONS {
                self.violations.push(v);
            }
        }
        for (k, v) in o.known_hits {
            *self.known_hits.entry(k).or_insert(0) += v;
        }
        for e in o.internal_errors {
            if self.internal_errors.len() < 8 {
                self.internal_errors.push(e);
            }
        }
        self.phases.extend(o.phases);
    }

    pub fn label(&self, l: &str) -> u64 {
        self.labels.get(l).copied().unwrap_or(0)
    }

    pub fn phase_info(&mut self, name: &str, evals: u64, exhaustive: bool, desc: &str) {
        self.phases.push(json!({"phase": name, "evaluations": evals, "exhaustive": exhaustive, "what": desc}));
    }
}

fn rng_for(seed: u64) -> TestRng {
    let mut bytes = [0u8; 32];
    let mut s = seed;
    for c in bytes.chunks_mut(8) {
        s = crate::util::splitmix64(s);
        c.copy_from_slice(&s.to_le_bytes());
    }
    TestRng::from_seed(RngAlgorithm::ChaCha, &bytes)
}

/// Sharded proptest run. `total` cases are split over `SHARDS` deterministic shards; each shard
/// is an independent proptest `TestRunner` (shrinking included). The property closure must be a
/// pure function of the case.
pub fn par_proptest<S, F>(cx: &Cx, phase: &str, total: u64, strat: impl Fn() -> S + Sync, f: F) -> Acc
where
    S: Strategy,
    S::Value: Serialize + Clone + std::fmt::Debug,
    F: Fn(&S::Value, &mut Acc) -> Check + Sync,
{
    let per = (total + SHARDS - 1) / SHARDS;
    let t0 = std::time::Instant::now();
    let accs: Vec<Acc> = (0..SHARDS)
        .into_par_iter()
        .map(|shard| proptest_shard(cx, phase, shard, per, &strat, &f))
        .collect();
    let mut acc = Acc::new();
    let mut n = 0;
    for a in accs {
        n += a.evals;
        acc.merge(a);
    }
    acc.phase_info(phase, n, false, &format!("proptest (random, shrinking), {:.1} s", t0.elapsed().as_secs_f64()));
    acc
}

fn proptest_shard<S, F>(cx: &Cx, phase: &str, shard: u64, cases: u64, strat: &(impl Fn() -> S + Sync), f: &F) -> Acc
where
    S: Strategy,
    S::Value: Serialize + Clone + std::fmt::Debug,
    F: Fn(&S::Value, &mut Acc) -> Check + Sync,
{
    let cell = std::cell::RefCell::new(Acc::new());
    let config = Config {
        cases: cases as u32,
        failure_persistence: None,
        max_shrink_iters: 4096,
        // a change that makes every failing case slow (livelock until the poll cap) must not turn
        // shrinking into a hang: stop after 45 s and report the best case so far
        max_shrink_time: 45_000,
        max_global_rejects: 1 << 20,
        ..Config::default()
    };
    let mut runner = TestRunner::new_with_rng(config, rng_for(cx.sub_seed(phase, shard)));
    let s = strat();
    let res = catch_unwind(AssertUnwindSafe(|| runner.run(&s, |case| {
        let mut acc = cell.borrow_mut();
        acc.eval();
        if acc.frozen {
            // shrinking: not counted as evaluations, but it is progress for the watchdog
            PROGRESS.fetch_add(1, Ordering::Relaxed);
        }
        let _guard = CaseGuard::enter(&case, phase);
        let r = catch_unwind(AssertUnwindSafe(|| f(&case, &mut acc)));
        match r {
            Ok(Ok(())) => Ok(()),
            Ok(Err(fl)) => {
                if cx.is_known(&fl.sig) {
                    if !acc.frozen {
                        *acc.known_hits.entry(fl.sig).or_insert(0) += 1;
                    }
                    Ok(())
                } else {
                    if !acc.frozen {
                        // remembered before shrinking starts: if the run is cut short (watchdog),
                        // the failure is still reported, with the unshrunk case as the replay
                        if let Ok(mut u) = UNSHRUNK.lock() {
                            if u.len() < MAX_VIOLATIONS && !u.iter().any(|v| v.sig == fl.sig) {
                                u.push(Violation {
                                    phase: phase.to_string(),
                                    sig: fl.sig.clone(),
                                    msg: fl.msg.clone(),
                                    case: serde_json::to_value(&case).unwrap_or(Value::Null),
                                });
                            }
                        }
                    }
                    acc.frozen = true;
                    Err(TestCaseError::fail(fl.sig))
                }
            }
            Err(p) => {
                let m = crate::panics::payload_msg(&p);
                acc.frozen = true;
                Err(TestCaseError::fail(format!("HARNESS-PANIC {m}")))
            }
        }
    })));
    let mut acc = match cell.try_borrow_mut() {
        Ok(mut a) => std::mem::take(&mut *a),
        Err(_) => Acc::new(),
    };
    let res = match res {
        Ok(r) => r,
        Err(p) => {
            acc.internal_errors.push(format!("generator panicked in phase {phase}: {}", crate::panics::payload_msg(&p)));
            return acc;
        }
    };
    match res {
        Ok(()) => {}
        Err(TestError::Fail(reason, case)) => {
            acc.frozen = true;
            let v = serde_json::to_value(&case).unwrap_or(Value::Null);
            let reason = reason.message().to_string();
            if reason.starts_with("HARNESS-PANIC") {
                acc.internal_errors.push(format!("{reason}; phase {phase}; case={v}"));
            } else {
                // Recompute the failure of the minimal case for an accurate message.
                let r = catch_unwind(AssertUnwindSafe(|| f(&case, &mut acc)));
                let fl = match r {
                    Ok(Err(fl)) => fl,
                    _ => Fail {
                        sig: reason.clone(),
                        msg: "(failure of the shrunk case did not reproduce identically)".into(),
                    },
                };
                acc.violation(phase, fl, v);
            }
        }
        Err(TestError::Abort(r)) => {
            acc.internal_errors.push(format!("proptest aborted in phase {phase}: {}", r.message()));
        }
    }
    acc
}

/// Runs independent enumeration units in parallel; results are merged in unit order.
pub fn par_units<U: Sync, F>(cx: &Cx, phase: &str, units: &[U], exhaustive: bool, desc: &str, f: F) -> Acc
where
    F: Fn(&Cx, &U, &mut Acc) + Sync,
{
    let t0 = std::time::Instant::now();
    let accs: Vec<Acc> = units
        .par_iter()
        .map(|u| {
            let mut acc = Acc::new();
            if let Err(p) = catch_unwind(AssertUnwindSafe(|| f(cx, u, &mut acc))) {
                acc.internal_errors.push(format!("harness panic while enumerating phase {phase}: {}", crate::panics::payload_msg(&p)));
            }
            acc
        })
        .collect();
    let mut acc = Acc::new();
    let mut n = 0;
    for a in accs {
        n += a.evals;
        acc.merge(a);
    }
    acc.phase_info(phase, n, exhaustive, &format!("{desc}, {:.1} s", t0.elapsed().as_secs_f64()));
    acc
}

/// Generates one value from a strategy deterministically (used by fuzz decoders and samplers).
pub fn sample_one<S: Strategy>(s: &S, seed: u64) -> S::Value {
    let mut runner = TestRunner::new_with_rng(Config::default(), rng_for(seed));
    s.new_tree(&mut runner).expect("strategy").current()
}

// ------------------------------------------------------------------------------------------------
// Known findings, evidence, replay files.

pub fn load_known() -> Vec<Known> {
    let mut out = Vec::new();
    let p = format!("{VERIF_DIR}/KNOWN_FINDINGS.txt");
    if let Ok(s) = std::fs::read_to_string(p) {
        for line in s.lines() {
            let line = line.trim();
            // known: property=C03 sig=<sig> free text
            if let Some(rest) = line.strip_prefix("known:") {
                let rest = rest.trim();
                let mut property = String::new();
                let mut sig = String::new();
                let mut text = Vec::new();
                for tok in rest.split_whitespace() {
                    if let Some(p) = tok.strip_prefix("property=") {
                        property = p.to_string();
                    } else if let Some(s) = tok.strip_prefix("sig=") {
                        sig = s.to_string();
                    } else {
                        text.push(tok);
                    }
                }
                if !property.is_empty() && !sig.is_empty() {
                    out.push(Known {
                        property,
                        sig,
                        text: text.join(" "),
                    });
                }
            }
        }
    }
    out
}

pub struct Meta {
    pub id: &'static str,
    pub level: &'static str,
    pub rule: &'static str,
    pub assumptions: &'static [&'static str],
}

/// Where evidence and replay files go (`/verif` unless VP_OUT_DIR is set, e.g. by the mutant runner).
pub fn out_dir() -> String {
    std::env::var("VP_OUT_DIR").unwrap_or_else(|_| VERIF_DIR.to_string())
}

/// "checked" (debug assertions + overflow checks on) or "unchecked".
pub fn build_tag() -> &'static str {
    if cfg!(debug_assertions) {
        "checked"
    } else {
        "unchecked"
    }
}

// ------------------------------------------------------------------------------------------------
// The case a thread is working on, for the abort handler: a panic while panicking (for instance a
// failing debug assertion in a destructor of the code under test) aborts the whole process, and
// nothing that was recorded in memory would be reported. Two pointer writes per case.

#[derive(Clone, Copy)]
struct CurrentCase {
    case: *const (),
    ser: fn(*const ()) -> String,
    phase: *const str,
}

thread_local! {
    static CURRENT: std::cell::Cell<Option<CurrentCase>> = const { std::cell::Cell::new(None) };
}

static ABORT_ID: std::sync::OnceLock<String> = std::sync::OnceLock::new();

fn ser_case<T: Serialize>(p: *const ()) -> String {
    // only called while the referent is alive (see `CaseGuard`)
    unsafe { serde_json::to_string(&*(p as *const T)).unwrap_or_else(|_| "null".into()) }
}

pub struct CaseGuard;

impl CaseGuard {
    pub fn enter<T: Serialize>(case: &T, phase: &str) -> CaseGuard {
        let _ = CURRENT.try_with(|c| c.set(Some(CurrentCase { case: case as *const T as *const (), ser: ser_case::<T>, phase: phase as *const str })));
        CaseGuard
    }
}

impl Drop for CaseGuard {
    fn drop(&mut self) {
        let _ = CURRENT.try_with(|c| c.set(None));
    }
}

extern "C" fn on_abort(_sig: libc::c_int) {
    // Best effort; the process is about to die anyway.
    let id = ABORT_ID.get().cloned().unwrap_or_default();
    let cur = CURRENT.try_with(|c| c.get()).ok().flatten();
    let last = crate::panics::last_message();
    match cur {
        Some(c) => {
            let case = (c.ser)(c.case);
            let phase = unsafe { &*c.phase }.to_string();
            let sig = format!("process-abort:{}", crate::panics::panic_sig(&last));
            let msg = format!("the process aborted (a panic while panicking, or a panic that cannot unwind) in the code under test; last panic: {last}");
            let v = Violation { phase, sig: sig.clone(), msg: msg.clone(), case: serde_json::from_str(&case).unwrap_or(Value::Null) };
            let path = write_replay(&id, &v);
            let out = format!("--- {} [{}] {}; case {}\nVIOLATION property={} replay={}\n", v.phase, sig, msg, &case[..case.len().min(600)], id, path);
            unsafe {
                libc::write(1, out.as_ptr() as *const libc::c_void, out.len());
                libc::_exit(1);
            }
        }
        None => {
            let out = format!("INCONCLUSIVE: the process aborted outside a case (last panic: {last})\n");
            unsafe {
                libc::write(1, out.as_ptr() as *const libc::c_void, out.len());
                libc::_exit(2);
            }
        }
    }
}

/// Installs the abort handler for property `id`.
pub fn install_abort_handler(id: &str) {
    let _ = ABORT_ID.set(id.to_string());
    unsafe {
        libc::signal(libc::SIGABRT, on_abort as usize);
    }
}

/// Failures seen by a proptest shard before shrinking (see `proptest_shard`); read by the watchdog.
pub static UNSHRUNK: std::sync::Mutex<Vec<Violation>> = std::sync::Mutex::new(Vec::new());

pub fn write_replay(id: &str, v: &Violation) -> String {
    let fp = fingerprint(&(&v.phase, &v.sig, &v.case));
    let dir = format!("{}/replays", out_dir());
    let _ = std::fs::create_dir_all(&dir);
    let path = format!("{dir}/{id}-{:016x}.json", fp);
    let body = json!({"property_id": id, "phase": v.phase, "sig": v.sig, "msg": v.msg, "case": v.case, "build": build_tag()});
    let _ = std::fs::write(&path, serde_json::to_string_pretty(&body).unwrap());
    path
}

pub fn write_evidence(cx: &Cx, meta: &Meta, acc: &Acc, wall_s: f64, extra: Value) {
    let mut samples: Vec<Value> = Vec::new();
    for (label, vs) in &acc.samples {
        for v in vs {
            samples.push(json!({"label": label, "case": v}));
        }
    }
    let exhaustive_phases: Vec<&Value> = acc
        .phases
        .iter()
        .filter(|p| p["exhaustive"].as_bool() == Some(true))
        .collect();
    let mut coverage = json!({
        "evaluations": acc.evals,
        "distinct_nontrivial": acc.distinct.len(),
        "rule": meta.rule,
        "samples": samples,
        "labels": acc.labels,
        "counters": acc.counters,
        "phases": acc.phases,
        "known_findings_hit": acc.known_hits,
    });
    if !exhaustive_phases.is_empty() && exhaustive_phases.len() == acc.phases.len() {
        coverage["exhaustive"] = json!(true);
    }
    if let (Value::Object(c), Value::Object(e)) = (&mut coverage, extra) {
        for (k, v) in e {
            c.insert(k, v);
        }
    }
    let ev = json!({
        "property_id": cx.id,
        "tier": cx.tier.name(),
        "seed": cx.seed,
        "level": meta.level,
        "coverage": coverage,
        "assumptions": meta.assumptions,
        "wall_s": (wall_s * 1000.0).round() / 1000.0,
        "violations": acc.violations.len(),
    });
    let dir = std::env::var("VP_EVIDENCE_DIR").unwrap_or_else(|_| format!("{}/evidence", out_dir()));
    let _ = std::fs::create_dir_all(&dir);
    let path = format!("{dir}/{}.json", cx.id);
    let tmp = format!("{path}.tmp");
    std::fs::write(&tmp, serde_json::to_string_pretty(&ev).unwrap()).expect("write evidence");
    std::fs::rename(&tmp, &path).expect("rename evidence");
}
