//! Runs `serve()` on a (entity spec, request spec) pair, drains the body, and interprets the
//! response into a structured view plus a list of categorised issues. Each property's check
//! picks the categories its statement covers, so that one property's check never alarms about
//! another property's subject.

use crate::drain::{drain, DrainOpts, Ev, Trace};
use crate::engine::Fail;
use crate::entity::{EntitySpec, HarnessError, Log, ModelEntity, ReqSpec, RespHead};
use crate::oracle::multipart;
use crate::util::{content, show_bytes};
use http_body::Body as _;

pub struct Served {
    pub head: RespHead,
    pub trace: Trace<HarnessError>,
    pub log: Log,
    /// size hint and eos sampled before the first poll.
    pub hint0: (u64, Option<u64>, bool),
}

#[derive(Debug)]
pub enum ServeFailure {
    BadRequestSpec,
    Panic(String),
}

pub fn serve_case(ent: &EntitySpec, req: &ReqSpec, opts: DrainOpts) -> Result<Served, ServeFailure> {
    let request = req.build().ok_or(ServeFailure::BadRequestSpec)?;
    let (entity, log) = ModelEntity::new(ent);
    let resp = crate::panics::guard(|| http_serve::serve(entity, &request)).map_err(ServeFailure::Panic)?;
    let head = RespHead::of(&resp);
    let body = resp.into_body();
    let h = body.size_hint();
    let hint0 = (h.lower(), h.upper(), body.is_end_stream());
    let trace = drain(body, opts);
    let log = log.lock().unwrap().clone();
    Ok(Served {
        head,
        trace,
        log,
        hint0,
    })
}

#[derive(Clone, Debug, PartialEq, Eq)]
pub enum Kind {
    /// 200 without Content-Range.
    Full,
    /// 206 with a top-level Content-Range.
    Single { first: u64, last: u64, complete: u64 },
    /// 206 multipart/byteranges; ranges as named by the parts (if the body could be parsed).
    /// `truncated`: the drain was capped inside a part, so `ranges` is only a prefix.
    Multi { ranges: Option<Vec<(u64, u64)>>, complete_all_l: bool, truncated: bool },
    /// 416
    Unsat { complete: Option<u64> },
    /// 304, 400, 405, 412, 413, or an unexpected status.
    Other,
}

pub struct View {
    pub status: u16,
    pub kind: Kind,
    pub content_length: Option<u64>,
    /// Categorised problems: sig prefixes `len:`, `bytes:`, `fmt:`, `multipart:`, `touch:`.
    pub issues: Vec<Fail>,
    /// Body compared completely against entity content (not just a prefix).
    pub fully_compared: bool,
    pub multipart_parts: usize,
    /// Part headers other than Content-Range, per part (for C06).
    pub part_headers: Vec<Vec<(String, Vec<u8>)>>,
    /// For a truncated multipart body: its total length if the part the drain stopped in is the last one.
    pub truncated_total: Option<u128>,
}

fn issue(issues: &mut Vec<Fail>, sig: &str, msg: String) {
    issues.push(Fail {
        sig: sig.to_string(),
        msg,
    });
}

fn cmp_bytes(got: &[u8], start: u64, what: &str, issues: &mut Vec<Fail>) {
    let want = content(start, got.len());
    if got != &want[..] {
        let i = got.iter().zip(want.iter()).position(|(a, b)| a != b).unwrap_or(0);
        issue(
            issues,
            &format!("bytes:{what}"),
            format!(
                "{what}: body byte {i} (entity position {}) is {:#04x}, entity has {:#04x}",
                start.wrapping_add(i as u64),
                got[i],
                want[i]
            ),
        );
    }
}

/// Interprets a GET/HEAD response. `is_head`: body must be empty and is not compared.
pub fn interpret(s: &Served, ent: &EntitySpec, is_head: bool) -> View {
    let l = ent.len;
    let head = &s.head;
    let t = &s.trace;
    let mut issues = Vec::new();
    let status = head.status;
    let content_length = match head.content_length() {
        Ok(v) => v,
        Err(e) => {
            issue(&mut issues, "len:content-length-unparseable", e);
            None
        }
    };
    let cr = match head.one("content-range") {
        Ok(v) => v.map(|v| v.to_vec()),
        Err(e) => {
            issue(&mut issues, "fmt:content-range-repeated", e);
            head.all("content-range").first().map(|v| v.to_vec())
        }
    };
    let ctype = head.all("content-type");
    let multipart_ct = ctype
        .iter()
        .find(|v| v.len() >= 10 && v[..10].eq_ignore_ascii_case(b"multipart/"))
        .map(|v| v.to_vec());
    let clean = t.ended_cleanly();
    let delivered = t.delivered_before_terminal();
    let mut fully_compared = false;
    let mut multipart_parts = 0;
    let mut part_headers = Vec::new();
    let mut truncated_total = None;

    // Framing, for every status (C01).
    if !is_head {
        if let Some(a) = content_length {
            if delivered > a {
                issue(
                    &mut issues,
                    "len:more-than-announced",
                    format!("status {status}: delivered {delivered} bytes, Content-Length {a}; {}", t.summary()),
                );
            }
            if clean && delivered != a {
                issue(
                    &mut issues,
                    "len:clean-end-differs-from-content-length",
                    format!("status {status}: body ended cleanly after {delivered} bytes, Content-Length {a}; {}", t.summary()),
                );
            }
        }
        if clean && (s.hint0.1 != Some(s.hint0.0) || s.hint0.0 != delivered) {
            issue(
                &mut issues,
                "len:initial-hint-differs-from-delivered",
                format!(
                    "status {status}: initial size hint {}..{:?}, delivered {delivered}; {}",
                    s.hint0.0,
                    s.hint0.1,
                    t.summary()
                ),
            );
        }
        if let Some(a) = content_length {
            if s.hint0.1 != Some(s.hint0.0) || s.hint0.0 != a {
                issue(
                    &mut issues,
                    "len:initial-hint-differs-from-content-length",
                    format!("status {status}: initial size hint {}..{:?}, Content-Length {a}", s.hint0.0, s.hint0.1),
                );
            }
        }
    } else if delivered != 0 {
        issue(
            &mut issues,
            "len:head-has-body",
            format!("HEAD response delivered {delivered} bytes"),
        );
    }
    if (status == 200 || status == 206) && content_length.is_none() && !issues.iter().any(|i| i.sig.starts_with("len:content-length")) {
        issue(&mut issues, "len:no-content-length", format!("status {status} without Content-Length"));
    }

    let kind = match status {
        200 => {
            if let Some(cr) = &cr {
                issue(
                    &mut issues,
                    "fmt:200-with-content-range",
                    format!("200 carries Content-Range {:?}", show_bytes(cr)),
                );
            }
            if let Some(a) = content_length {
                if a != l {
                    issue(&mut issues, "len:200-length", format!("200 has Content-Length {a}, entity length {l}"));
                }
            }
            if !is_head {
                cmp_bytes(&t.body, 0, "200-body", &mut issues);
                fully_compared = clean && t.body.len() as u64 == delivered;
                if clean && delivered != l {
                    issue(&mut issues, "bytes:200-incomplete", format!("200 body has {delivered} bytes, entity has {l}"));
                }
            }
            Kind::Full
        }
        206 if multipart_ct.is_some() => {
            if let Some(cr) = &cr {
                issue(
                    &mut issues,
                    "multipart:top-level-content-range",
                    format!("multipart 206 carries top-level Content-Range {:?}", show_bytes(cr)),
                );
            }
            let mut ranges = None;
            let mut complete_all_l = true;
            match multipart::boundary_of(multipart_ct.as_ref().unwrap()) {
                Err(e) => issue(&mut issues, "multipart:content-type", e),
                Ok(b) => {
                    if !is_head {
                        // a drain that was cut short (by the cap, or by a panic in the body) is examined as a prefix
                        let truncated = t.capped || t.panicked().is_some();
                        if truncated || clean {
                            match multipart::parse_prefix(&t.body, &b, truncated) {
                                Err(e) => issue(&mut issues, "multipart:structure", e),
                                Ok((parts, missing)) => {
                                    let mut rs = Vec::new();
                                    for p in &parts {
                                        rs.push((p.first, p.last));
                                        if p.complete_len != l {
                                            complete_all_l = false;
                                            issue(
                                                &mut issues,
                                                "fmt:part-complete-length",
                                                format!("part Content-Range says /{} but the entity has {l} bytes", p.complete_len),
                                            );
                                        }
                                        if p.last >= l {
                                            issue(
                                                &mut issues,
                                                "fmt:part-range-beyond-entity",
                                                format!("part Content-Range {}-{} reaches beyond the entity ({l} bytes)", p.first, p.last),
                                            );
                                        }
                                        cmp_bytes(&t.body[p.data_off..p.data_off + p.data_len], p.first, "multipart-part", &mut issues);
                                        part_headers.push(p.headers.clone());
                                    }
                                    multipart_parts = parts.len();
                                    let total = t.body.len() as u128 + missing;
                                    if truncated {
                                        truncated_total = Some(total);
                                    } else if let Some(a) = content_length {
                                        if a as u128 != total {
                                            issue(
                                                &mut issues,
                                                "multipart:content-length",
                                                format!("multipart body is {total} bytes by its structure, Content-Length says {a}"),
                                            );
                                        }
                                    }
                                    fully_compared = clean;
                                    ranges = Some(rs);
                                }
                            }
                        }
                    }
                }
            }
            Kind::Multi { ranges, complete_all_l, truncated: t.capped }
        }
        206 => match &cr {
            None => {
                issue(&mut issues, "fmt:206-without-content-range", "206 without Content-Range or multipart type".into());
                Kind::Other
            }
            Some(v) => match multipart::parse_content_range(v) {
                Err(e) => {
                    issue(&mut issues, "fmt:content-range", e);
                    Kind::Other
                }
                Ok((a, b, c)) => {
                    if !(a <= b && b < l) {
                        issue(
                            &mut issues,
                            "fmt:content-range-bounds",
                            format!("Content-Range bytes {a}-{b}/{c} violates a <= b < L (L={l})"),
                        );
                    }
                    if c != l {
                        issue(
                            &mut issues,
                            "fmt:content-range-complete-length",
                            format!("Content-Range bytes {a}-{b}/{c}: complete length is not the entity length {l}"),
                        );
                    }
                    if a <= b {
                        let n = (b - a) as u128 + 1;
                        if let Some(cl) = content_length {
                            if cl as u128 != n {
                                issue(
                                    &mut issues,
                                    "len:206-length",
                                    format!("Content-Range bytes {a}-{b} names {n} bytes, Content-Length {cl}"),
                                );
                            }
                        }
                        if !is_head {
                            cmp_bytes(&t.body, a, "206-body", &mut issues);
                            fully_compared = clean && t.body.len() as u64 == delivered;
                            if clean && delivered as u128 != n {
                                issue(
                                    &mut issues,
                                    "bytes:206-incomplete",
                                    format!("206 body has {delivered} bytes, Content-Range names {n}"),
                                );
                            }
                        }
                    }
                    Kind::Single {
                        first: a,
                        last: b,
                        complete: c,
                    }
                }
            },
        },
        416 => {
            let complete = match &cr {
                None => {
                    issue(&mut issues, "fmt:416-without-content-range", "416 without Content-Range".into());
                    None
                }
                Some(v) => match multipart::parse_unsatisfied_range(v) {
                    Ok(c) => {
                        if c != l {
                            issue(
                                &mut issues,
                                "fmt:416-complete-length",
                                format!("416 Content-Range says */{c}, entity length {l}"),
                            );
                        }
                        Some(c)
                    }
                    Err(e) => {
                        issue(&mut issues, "fmt:416-content-range", e);
                        None
                    }
                },
            };
            if delivered != 0 {
                issue(&mut issues, "len:416-body", format!("416 delivered {delivered} body bytes"));
            }
            Kind::Unsat { complete }
        }
        _ => Kind::Other,
    };

    // Which entity bytes were fetched (C02 / C13 / C15).
    let named: Vec<(u64, u64)> = match &kind {
        Kind::Full => vec![(0, l)],
        Kind::Single { first, last, .. } => vec![(*first, last.saturating_add(1))],
        Kind::Multi { ranges: Some(rs), .. } => rs.iter().map(|r| (r.0, r.1.saturating_add(1))).collect(),
        Kind::Multi { ranges: None, .. } => s.log.ranges.clone(),
        _ => vec![],
    };
    if is_head {
        if !s.log.ranges.is_empty() {
            issue(
                &mut issues,
                "touch:head-read-entity",
                format!("HEAD called get_range {:?}", s.log.ranges),
            );
        }
    } else {
        // Every fetched range must be one the headers name, in order, each at most once.
        let mut j = 0;
        for r in &s.log.ranges {
            while j < named.len() && named[j] != *r {
                j += 1;
            }
            if j == named.len() {
                issue(
                    &mut issues,
                    "touch:fetched-unnamed-range",
                    format!(
                        "get_range({}..{}) is not among the ranges the response names {:?} (in order, once each); log {:?}",
                        r.0, r.1, named, s.log.ranges
                    ),
                );
                break;
            }
            j += 1;
        }
    }

    View {
        status,
        kind,
        content_length,
        issues,
        fully_compared,
        multipart_parts,
        part_headers,
        truncated_total,
    }
}

impl View {
    /// The first issue whose signature starts with one of the prefixes.
    pub fn first_issue(&self, prefixes: &[&str]) -> Option<Fail> {
        self.issues
            .iter()
            .find(|i| prefixes.iter().any(|p| i.sig.starts_with(p)))
            .cloned()
    }
    pub fn other_issues(&self, prefixes: &[&str]) -> usize {
        self.issues
            .iter()
            .filter(|i| !prefixes.iter().any(|p| i.sig.starts_with(p)))
            .count()
    }
}

pub fn first_panic(s: &Served) -> Option<String> {
    s.trace.panicked().map(|m| m.to_string())
}

pub fn terminal_desc(t: &Trace<HarnessError>) -> String {
    match t.terminal() {
        Some(Ev::End) => "end".into(),
        Some(Ev::Err(e)) => format!("err({e:?})"),
        Some(Ev::Panic(m)) => format!("panic({m})"),
        _ => "none".into(),
    }
}
