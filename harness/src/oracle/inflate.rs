//! RFC 1951 (deflate) / RFC 1952 (gzip) decoder written for the harness, independent of flate2 /
//! miniz_oxide. Bit-serial, restartable on a prefix: `gunzip_prefix` decodes as far as the
//! available bytes allow and says whether the member is complete.

#[derive(Debug, Clone, PartialEq, Eq)]
pub enum Status {
    /// The member ended; `consumed` bytes of input belong to it (header, deflate stream, trailer).
    Complete { consumed: usize, crc_ok: bool, isize_ok: bool },
    /// Input ran out before the member ended.
    NeedMore,
    /// The input is not a valid gzip member.
    Invalid(String),
}

pub struct Decoded {
    pub out: Vec<u8>,
    pub status: Status,
    /// Number of deflate blocks completely decoded.
    pub blocks: usize,
}

struct Bits<'a> {
    d: &'a [u8],
    pos: usize,
    bit: u32,
}

struct Eof;

impl<'a> Bits<'a> {
    fn bit(&mut self) -> Result<u32, Eof> {
        if self.pos >= self.d.len() {
            return Err(Eof);
        }
        let b = (self.d[self.pos] >> self.bit) & 1;
        self.bit += 1;
        if self.bit == 8 {
            self.bit = 0;
            self.pos += 1;
        }
        Ok(b as u32)
    }
    fn bits(&mut self, n: u32) -> Result<u32, Eof> {
        let mut v = 0;
        for i in 0..n {
            v |= self.bit()? << i;
        }
        Ok(v)
    }
    fn align(&mut self) {
        if self.bit != 0 {
            self.bit = 0;
            self.pos += 1;
        }
    }
    fn byte(&mut self) -> Result<u8, Eof> {
        if self.pos >= self.d.len() {
            return Err(Eof);
        }
        let b = self.d[self.pos];
        self.pos += 1;
        Ok(b)
    }
}

/// Canonical Huffman decoding table: (counts per length, symbols sorted by code).
struct Huff {
    count: [u16; 16],
    symbol: Vec<u16>,
}

impl Huff {
    fn new(lengths: &[u8]) -> Result<Huff, String> {
        let mut count = [0u16; 16];
        for &l in lengths {
            count[l as usize] += 1;
        }
        count[0] = 0;
        // over-subscription check
        let mut left: i32 = 1;
        for len in 1..16 {
            left <<= 1;
            left -= count[len] as i32;
            if left < 0 {
                return Err("over-subscribed Huffman code".into());
            }
        }
        let mut offs = [0u16; 16];
        for len in 1..15 {
            offs[len + 1] = offs[len] + count[len];
        }
        let mut symbol = vec![0u16; lengths.len()];
        for (sym, &l) in lengths.iter().enumerate() {
            if l != 0 {
                symbol[offs[l as usize] as usize] = sym as u16;
                offs[l as usize] += 1;
            }
        }
        Ok(Huff { count, symbol })
    }

    fn decode(&self, b: &mut Bits) -> Result<Result<u16, String>, Eof> {
        let mut code: i32 = 0;
        let mut first: i32 = 0;
        let mut index: i32 = 0;
        for len in 1..16 {
            code |= b.bit()? as i32;
            let count = self.count[len] as i32;
            if code - count < first {
                return Ok(Ok(self.symbol[(index + (code - first)) as usize]));
            }
            index += count;
            first += count;
            first <<= 1;
            code <<= 1;
        }
        Ok(Err("invalid Huffman code".into()))
    }
}

const LEN_BASE: [u16; 29] = [3, 4, 5, 6, 7, 8, 9, 10, 11, 13, 15, 17, 19, 23, 27, 31, 35, 43, 51, 59, 67, 83, 99, 115, 131, 163, 195, 227, 258];
const LEN_EXTRA: [u8; 29] = [0, 0, 0, 0, 0, 0, 0, 0, 1, 1, 1, 1, 2, 2, 2, 2, 3, 3, 3, 3, 4, 4, 4, 4, 5, 5, 5, 5, 0];
const DIST_BASE: [u16; 30] = [1, 2, 3, 4, 5, 7, 9, 13, 17, 25, 33, 49, 65, 97, 129, 193, 257, 385, 513, 769, 1025, 1537, 2049, 3073, 4097, 6145, 8193, 12289, 16385, 24577];
const DIST_EXTRA: [u8; 30] = [0, 0, 0, 0, 1, 1, 2, 2, 3, 3, 4, 4, 5, 5, 6, 6, 7, 7, 8, 8, 9, 9, 10, 10, 11, 11, 12, 12, 13, 13];

enum Stop {
    Eof,
    Bad(String),
}

impl From<Eof> for Stop {
    fn from(_: Eof) -> Stop {
        Stop::Eof
    }
}

fn codes(b: &mut Bits, out: &mut Vec<u8>, lit: &Huff, dist: &Huff) -> Result<(), Stop> {
    loop {
        let sym = lit.decode(b)?.map_err(Stop::Bad)?;
        if sym < 256 {
            out.push(sym as u8);
        } else if sym == 256 {
            return Ok(());
        } else {
            let i = (sym - 257) as usize;
            if i >= 29 {
                return Err(Stop::Bad("invalid length symbol".into()));
            }
            let len = LEN_BASE[i] as usize + b.bits(LEN_EXTRA[i] as u32)? as usize;
            let ds = dist.decode(b)?.map_err(Stop::Bad)? as usize;
            if ds >= 30 {
                return Err(Stop::Bad("invalid distance symbol".into()));
            }
            let d = DIST_BASE[ds] as usize + b.bits(DIST_EXTRA[ds] as u32)? as usize;
            if d > out.len() {
                return Err(Stop::Bad("distance too far back".into()));
            }
            for _ in 0..len {
                let c = out[out.len() - d];
                out.push(c);
            }
        }
    }
}

fn fixed_tables() -> (Huff, Huff) {
    let mut l = [0u8; 288];
    for (i, x) in l.iter_mut().enumerate() {
        *x = match i {
            0..=143 => 8,
            144..=255 => 9,
            256..=279 => 7,
            _ => 8,
        };
    }
    (Huff::new(&l).unwrap(), Huff::new(&[5u8; 30]).unwrap())
}

fn dynamic_tables(b: &mut Bits) -> Result<(Huff, Huff), Stop> {
    let nlen = b.bits(5)? as usize + 257;
    let ndist = b.bits(5)? as usize + 1;
    let ncode = b.bits(4)? as usize + 4;
    if nlen > 286 || ndist > 30 {
        return Err(Stop::Bad("bad counts in dynamic block".into()));
    }
    const ORDER: [usize; 19] = [16, 17, 18, 0, 8, 7, 9, 6, 10, 5, 11, 4, 12, 3, 13, 2, 14, 1, 15];
    let mut cl = [0u8; 19];
    for &o in ORDER.iter().take(ncode) {
        cl[o] = b.bits(3)? as u8;
    }
    let clh = Huff::new(&cl).map_err(Stop::Bad)?;
    let mut lengths = vec![0u8; nlen + ndist];
    let mut i = 0;
    while i < nlen + ndist {
        let sym = clh.decode(b)?.map_err(Stop::Bad)?;
        if sym < 16 {
            lengths[i] = sym as u8;
            i += 1;
        } else {
            let (prev, rep) = match sym {
                16 => {
                    if i == 0 {
                        return Err(Stop::Bad("repeat without previous length".into()));
                    }
                    (lengths[i - 1], 3 + b.bits(2)? as usize)
                }
                17 => (0, 3 + b.bits(3)? as usize),
                _ => (0, 11 + b.bits(7)? as usize),
            };
            if i + rep > nlen + ndist {
                return Err(Stop::Bad("too many lengths".into()));
            }
            for _ in 0..rep {
                lengths[i] = prev;
                i += 1;
            }
        }
    }
    if lengths[256] == 0 {
        return Err(Stop::Bad("no end-of-block code".into()));
    }
    let lit = Huff::new(&lengths[..nlen]).map_err(Stop::Bad)?;
    let dist = Huff::new(&lengths[nlen..]).map_err(Stop::Bad)?;
    Ok((lit, dist))
}

/// Inflates as much as the input allows. Returns (bytes of input consumed if the stream ended,
/// blocks completed, stop reason).
fn inflate(d: &[u8], out: &mut Vec<u8>) -> (Option<usize>, usize, Option<Stop>) {
    let mut b = Bits { d, pos: 0, bit: 0 };
    let mut blocks = 0;
    loop {
        // Output is committed symbol by symbol; on Eof the symbols decoded so far stay.
        let r: Result<bool, Stop> = (|| {
            let last = b.bit()? == 1;
            match b.bits(2)? {
                0 => {
                    b.align();
                    let len = b.byte()? as usize | (b.byte()? as usize) << 8;
                    let nlen = b.byte()? as usize | (b.byte()? as usize) << 8;
                    if len != (!nlen & 0xffff) {
                        return Err(Stop::Bad("stored block length check failed".into()));
                    }
                    for _ in 0..len {
                        out.push(b.byte()?);
                    }
                }
                1 => {
                    let (l, di) = fixed_tables();
                    codes(&mut b, out, &l, &di)?;
                }
                2 => {
                    let (l, di) = dynamic_tables(&mut b)?;
                    codes(&mut b, out, &l, &di)?;
                }
                _ => return Err(Stop::Bad("reserved block type".into())),
            }
            Ok(last)
        })();
        match r {
            Ok(true) => {
                blocks += 1;
                b.align();
                return (Some(b.pos), blocks, None);
            }
            Ok(false) => blocks += 1,
            Err(s) => return (None, blocks, Some(s)),
        }
    }
}

pub fn crc32(data: &[u8]) -> u32 {
    let mut table = [0u32; 256];
    for (i, t) in table.iter_mut().enumerate() {
        let mut c = i as u32;
        for _ in 0..8 {
            c = if c & 1 != 0 { 0xEDB8_8320 ^ (c >> 1) } else { c >> 1 };
        }
        *t = c;
    }
    let mut c = 0xFFFF_FFFFu32;
    for &b in data {
        c = table[((c ^ b as u32) & 0xff) as usize] ^ (c >> 8);
    }
    c ^ 0xFFFF_FFFF
}

/// Decodes one gzip member from a (possibly incomplete) byte string.
pub fn gunzip_prefix(d: &[u8]) -> Decoded {
    let mut out = Vec::new();
    let need = |out: Vec<u8>| Decoded {
        out,
        status: Status::NeedMore,
        blocks: 0,
    };
    let bad = |m: &str| Decoded {
        out: Vec::new(),
        status: Status::Invalid(m.to_string()),
        blocks: 0,
    };
    // Header.
    let fixed = [0x1f, 0x8b, 8];
    for (i, want) in fixed.iter().enumerate() {
        match d.get(i) {
            None => return need(out),
            Some(b) if b != want => return bad(&format!("header byte {i} is {b:#x}, expected {want:#x}")),
            _ => {}
        }
    }
    if d.len() < 10 {
        return need(out);
    }
    let flg = d[3];
    if flg & 0xe0 != 0 {
        return bad("reserved header flag set");
    }
    let mut p = 10;
    if flg & 4 != 0 {
        if d.len() < p + 2 {
            return need(out);
        }
        let xlen = d[p] as usize | (d[p + 1] as usize) << 8;
        p += 2 + xlen;
    }
    for f in [8u8, 16] {
        if flg & f != 0 {
            loop {
                match d.get(p) {
                    None => return need(out),
                    Some(0) => {
                        p += 1;
                        break;
                    }
                    Some(_) => p += 1,
                }
            }
        }
    }
    if flg & 2 != 0 {
        p += 2;
    }
    if d.len() < p {
        return need(out);
    }
    let (end, blocks, stop) = inflate(&d[p..], &mut out);
    match (end, stop) {
        (_, Some(Stop::Bad(m))) => Decoded {
            out,
            status: Status::Invalid(m),
            blocks,
        },
        (None, _) => Decoded {
            out,
            status: Status::NeedMore,
            blocks,
        },
        (Some(n), _) => {
            let t = p + n;
            if d.len() < t + 8 {
                return Decoded {
                    out,
                    status: Status::NeedMore,
                    blocks,
                };
            }
            let crc = u32::from_le_bytes([d[t], d[t + 1], d[t + 2], d[t + 3]]);
            let isize = u32::from_le_bytes([d[t + 4], d[t + 5], d[t + 6], d[t + 7]]);
            let crc_ok = crc == crc32(&out);
            let isize_ok = isize == out.len() as u32;
            Decoded {
                out,
                status: Status::Complete {
                    consumed: t + 8,
                    crc_ok,
                    isize_ok,
                },
                blocks,
            }
        }
    }
}

#[cfg(test)]
mod tests {
    use super::*;
    use std::io::Write;

    fn gz(data: &[u8], level: u32, flush_every: usize) -> Vec<u8> {
        let mut e = flate2::write::GzEncoder::new(Vec::new(), flate2::Compression::new(level));
        for c in data.chunks(flush_every.max(1)) {
            e.write_all(c).unwrap();
            e.flush().unwrap();
        }
        e.finish().unwrap()
    }

    #[test]
    fn roundtrip_all_levels() {
        let mut data = Vec::new();
        for i in 0..70_000u64 {
            data.push(if i % 1000 < 500 { (i / 64) as u8 } else { crate::util::content_byte(i) });
        }
        for level in 0..=9 {
            for n in [0usize, 1, 100, 70_000] {
                let z = gz(&data[..n], level, 977);
                let d = gunzip_prefix(&z);
                assert_eq!(d.out, &data[..n], "level {level} n {n}");
                assert_eq!(d.status, Status::Complete { consumed: z.len(), crc_ok: true, isize_ok: true });
                // every prefix either needs more or is complete, and never yields wrong bytes
                for cut in [0, 1, 5, 10, 11, z.len() / 2, z.len() - 1] {
                    let cut = cut.min(z.len().saturating_sub(1));
                    let p = gunzip_prefix(&z[..cut]);
                    assert_eq!(p.status, Status::NeedMore);
                    assert!(data[..n].starts_with(&p.out));
                }
            }
        }
    }

    #[test]
    fn rejects_garbage() {
        assert!(matches!(gunzip_prefix(b"hello world, this is not gzip").status, Status::Invalid(_)));
        assert_eq!(crc32(b"123456789"), 0xCBF4_3926);
    }
}
