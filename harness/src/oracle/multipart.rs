//! Strict, length-driven parser for `multipart/byteranges` bodies (C06), written from RFC 2046
//! section 5.1.1 and RFC 7233 appendix A — independent of how the crate assembles them.

pub struct Part {
    /// Header lines other than Content-Range, lower-cased names.
    pub headers: Vec<(String, Vec<u8>)>,
    pub first: u64,
    pub last: u64,
    pub complete_len: u64,
    pub data_off: usize,
    pub data_len: usize,
}

/// Extracts the boundary parameter from a `multipart/byteranges` Content-Type.
pub fn boundary_of(content_type: &[u8]) -> Result<Vec<u8>, String> {
    let s = std::str::from_utf8(content_type).map_err(|_| "content-type not utf-8".to_string())?;
    let mut it = s.split(';');
    let mt = it.next().unwrap_or("").trim();
    if !mt.eq_ignore_ascii_case("multipart/byteranges") {
        return Err(format!("media type is {mt:?}, not multipart/byteranges"));
    }
    for p in it {
        let p = p.trim();
        if let Some((k, v)) = p.split_once('=') {
            if k.trim().eq_ignore_ascii_case("boundary") {
                let v = v.trim();
                let v = v.strip_prefix('"').and_then(|x| x.strip_suffix('"')).unwrap_or(v);
                if v.is_empty() || v.len() > 70 {
                    return Err(format!("boundary {v:?} has invalid length"));
                }
                let ok = v.bytes().all(|b| b.is_ascii_alphanumeric() || b"'()+_,-./:=? ".contains(&b));
                if !ok || v.ends_with(' ') {
                    return Err(format!("boundary {v:?} has invalid characters"));
                }
                return Ok(v.as_bytes().to_vec());
            }
        }
    }
    Err("no boundary parameter".into())
}

pub fn parse_content_range(v: &[u8]) -> Result<(u64, u64, u64), String> {
    let s = std::str::from_utf8(v).map_err(|_| "content-range not ascii".to_string())?;
    let rest = s
        .strip_prefix("bytes ")
        .ok_or_else(|| format!("content-range {s:?} does not start with 'bytes '"))?;
    let (range, complete) = rest.split_once('/').ok_or_else(|| format!("content-range {s:?} has no '/'"))?;
    let (a, b) = range.split_once('-').ok_or_else(|| format!("content-range {s:?} has no '-'"))?;
    let num = |x: &str| -> Result<u64, String> {
        if x.is_empty() || !x.bytes().all(|c| c.is_ascii_digit()) {
            return Err(format!("content-range {s:?}: {x:?} is not 1*DIGIT"));
        }
        x.parse::<u64>().map_err(|_| format!("content-range {s:?}: {x:?} does not fit u64"))
    };
    Ok((num(a)?, num(b)?, num(complete)?))
}

/// `bytes */L`
pub fn parse_unsatisfied_range(v: &[u8]) -> Result<u64, String> {
    let s = std::str::from_utf8(v).map_err(|_| "content-range not ascii".to_string())?;
    let rest = s
        .strip_prefix("bytes */")
        .ok_or_else(|| format!("content-range {s:?} is not 'bytes */L'"))?;
    if rest.is_empty() || !rest.bytes().all(|c| c.is_ascii_digit()) {
        return Err(format!("content-range {s:?}: length is not 1*DIGIT"));
    }
    rest.parse::<u64>().map_err(|_| format!("content-range {s:?}: length does not fit u64"))
}

fn take<'a>(body: &'a [u8], pos: &mut usize, lit: &[u8], what: &str) -> Result<(), String> {
    if body.len() >= *pos + lit.len() && &body[*pos..*pos + lit.len()] == lit {
        *pos += lit.len();
        Ok(())
    } else {
        let got = &body[*pos..body.len().min(*pos + lit.len() + 8)];
        Err(format!(
            "at byte {}: expected {what} {:?}, found {:?}",
            *pos,
            crate::util::show_bytes(lit),
            crate::util::show_bytes(got)
        ))
    }
}

pub fn parse(body: &[u8], boundary: &[u8]) -> Result<Vec<Part>, String> {
    let (parts, missing) = parse_prefix(body, boundary, false)?;
    debug_assert_eq!(missing, 0);
    Ok(parts)
}

/// Like `parse`; with `truncated` the body may be a prefix that stops inside the data of a
/// part: that part is taken to be the last one and the number of bytes still missing (rest of
/// its data plus `CRLF--boundary--CRLF`) is returned.
pub fn parse_prefix(body: &[u8], boundary: &[u8], truncated: bool) -> Result<(Vec<Part>, u128), String> {
    let mut pos = 0usize;
    let mut parts = Vec::new();
    let mut delim = b"--".to_vec();
    delim.extend_from_slice(boundary);
    // First delimiter: the preceding CRLF belongs to the (empty) preamble and is optional.
    if body.starts_with(b"\r\n") {
        pos = 2;
    }
    loop {
        take(body, &mut pos, &delim, "delimiter")?;
        if body[pos..].starts_with(b"--") {
            pos += 2;
            // transport padding is not produced by any sane generator; CRLF then end (epilogue empty).
            if body[pos..].starts_with(b"\r\n") {
                pos += 2;
            }
            if pos != body.len() {
                return Err(format!("{} bytes after the closing delimiter", body.len() - pos));
            }
            break;
        }
        take(body, &mut pos, b"\r\n", "CRLF after delimiter")?;
        // Header lines until an empty line.
        let mut headers = Vec::new();
        let mut cr: Option<(u64, u64, u64)> = None;
        loop {
            let eol = body[pos..]
                .windows(2)
                .position(|w| w == b"\r\n")
                .ok_or_else(|| format!("at byte {pos}: unterminated header line"))?;
            let line = &body[pos..pos + eol];
            pos += eol + 2;
            if line.is_empty() {
                break;
            }
            let colon = line
                .iter()
                .position(|&b| b == b':')
                .ok_or_else(|| format!("header line {:?} has no colon", crate::util::show_bytes(line)))?;
            let name = std::str::from_utf8(&line[..colon])
                .map_err(|_| "header name not ascii".to_string())?
                .to_ascii_lowercase();
            if name.is_empty() || name.bytes().any(|b| b <= b' ' || b >= 0x7f) {
                return Err(format!("bad header name {name:?}"));
            }
            let mut val = &line[colon + 1..];
            while let [b' ' | b'\t', r @ ..] = val {
                val = r;
            }
            while let [r @ .., b' ' | b'\t'] = val {
                val = r;
            }
            if name == "content-range" {
                if cr.is_some() {
                    return Err("part has two Content-Range lines".into());
                }
                cr = Some(parse_content_range(val)?);
            } else {
                headers.push((name, val.to_vec()));
            }
        }
        let (first, last, complete_len) = cr.ok_or_else(|| "part without Content-Range".to_string())?;
        if first > last {
            return Err(format!("part Content-Range {first}-{last} is inverted"));
        }
        let n = (last - first) as u128 + 1;
        if truncated && n >= (body.len() - pos) as u128 {
            let avail = body.len() - pos;
            parts.push(Part {
                headers,
                first,
                last,
                complete_len,
                data_off: pos,
                data_len: avail,
            });
            let closing = 2 + 2 + boundary.len() as u128 + 2 + 2;
            return Ok((parts, n - avail as u128 + closing));
        }
        if n > (body.len() - pos) as u128 {
            return Err(format!(
                "part {first}-{last} announces {n} bytes but only {} remain in the body",
                body.len() - pos
            ));
        }
        let n = n as usize;
        parts.push(Part {
            headers,
            first,
            last,
            complete_len,
            data_off: pos,
            data_len: n,
        });
        pos += n;
        take(body, &mut pos, b"\r\n", "CRLF before delimiter")?;
        if parts.len() > 10_000 {
            return Err("too many parts".into());
        }
    }
    Ok((parts, 0))
}

/// The exact length a multipart body must have, computed from first principles from the parsed
/// structure is simply `body.len()`; this helper computes the length of a *prefix-only* drain
/// (huge parts) from the part headers the crate would have to send. Used for bodies too large to
/// drain: `Σ (delimiter + header block + data) + closing`.
pub fn expected_len(boundary_len: usize, first_has_crlf: bool, parts: &[(usize, u128)]) -> u128 {
    // parts: (header block length including the blank line, data length)
    let mut n: u128 = 0;
    for (i, (h, d)) in parts.iter().enumerate() {
        if i > 0 || first_has_crlf {
            n += 2;
        }
        n += 2 + boundary_len as u128 + 2 + *h as u128 + *d;
    }
    n + 2 + 2 + boundary_len as u128 + 2 + 2
}
