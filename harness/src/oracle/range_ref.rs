//! Reference reading of RFC 7233 `Range: bytes=...` written from the property statement (C03),
//! in u128 arithmetic, returning the *set* of outcomes the statement permits.

use serde::Serialize;

#[derive(Clone, Copy, Debug, PartialEq, Eq, Serialize)]
pub enum Spec {
    FromTo(u128, u128),
    From(u128),
    Suffix(u128),
}

#[derive(Clone, Debug, PartialEq, Eq)]
pub enum Parsed {
    Absent,
    /// Not a byte-range-set under any reading: must be ignored.
    Garbage,
    /// In the property's grammatical domain: `bytes=` spec *( "," OWS spec ), numbers fit u64.
    Strict(Vec<Spec>),
    /// RFC-grammatical or nearly so, but in a form the statement does not pin down
    /// (reason given): either ignoring the header or resolving the normalised set is accepted.
    Tolerated(Vec<Spec>, &'static str),
}

fn is_ows(b: u8) -> bool {
    b == b' ' || b == b'\t'
}

fn parse_num(d: &[u8]) -> Option<u128> {
    if d.is_empty() || !d.iter().all(|b| b.is_ascii_digit()) {
        return None;
    }
    let mut v: u128 = 0;
    for &b in d {
        v = v.saturating_mul(10).saturating_add((b - b'0') as u128);
    }
    Some(v)
}

fn parse_spec(s: &[u8]) -> Option<Spec> {
    let h = s.iter().position(|&b| b == b'-')?;
    let (a, b) = (&s[..h], &s[h + 1..]);
    if a.is_empty() {
        return Some(Spec::Suffix(parse_num(b)?));
    }
    let first = parse_num(a)?;
    if b.is_empty() {
        return Some(Spec::From(first));
    }
    Some(Spec::FromTo(first, parse_num(b)?))
}

fn spec_nums(s: &Spec) -> Vec<u128> {
    match *s {
        Spec::FromTo(a, b) => vec![a, b],
        Spec::From(a) => vec![a],
        Spec::Suffix(n) => vec![n],
    }
}

pub fn parse_range(v: Option<&[u8]>) -> Parsed {
    let Some(v) = v else { return Parsed::Absent };
    // Unit.
    let Some(eq) = v.iter().position(|&b| b == b'=') else {
        return Parsed::Garbage;
    };
    let unit = &v[..eq];
    let set = &v[eq + 1..];
    let mut why: Option<&'static str> = None;
    if unit != b"bytes" {
        if unit.eq_ignore_ascii_case(b"bytes") {
            why = Some("unit-case");
        } else {
            return Parsed::Garbage; // another unit (or junk before '=')
        }
    }
    // Lenient list split: elements separated by commas, OWS trimmed on both sides.
    let mut specs = Vec::new();
    let mut digits_over_20 = false;
    for (i, raw) in set.split(|&b| b == b',').enumerate() {
        let mut e = raw;
        let lead = e.iter().take_while(|&&b| is_ows(b)).count();
        e = &e[lead..];
        let trail = e.iter().rev().take_while(|&&b| is_ows(b)).count();
        e = &e[..e.len() - trail];
        if lead > 0 && i == 0 {
            why = why.or(Some("ows-before-first"));
        }
        if trail > 0 {
            why = why.or(Some("ows-before-comma-or-end"));
        }
        if e.is_empty() {
            why = why.or(Some("empty-element"));
            continue;
        }
        let Some(s) = parse_spec(e) else { return Parsed::Garbage };
        if e.split(|&b| b == b'-').any(|d| d.len() > 20) {
            digits_over_20 = true;
        }
        specs.push(s);
    }
    if specs.is_empty() {
        return Parsed::Garbage;
    }
    // A number spelled with more than 20 digits whose value fits u64 (leading zeros) is
    // grammatical (1*DIGIT) and must be resolved like any other.
    let _ = digits_over_20;
    if specs.iter().flat_map(spec_nums).any(|n| n > u64::MAX as u128) {
        // The statement's quantifier calls positions of 2^64 and beyond "unparseable": such a
        // header is outside the grammar as far as the property is concerned and must be ignored,
        // wherever in the set the number stands.
        return Parsed::Garbage;
    }
    match why {
        None => Parsed::Strict(specs),
        Some(w) => Parsed::Tolerated(specs, w),
    }
}

/// Inclusive resolved range.
pub type R = (u64, u64);

/// Resolves specs against length `len > 0` exactly as the statement says; inverted specs
/// (`last < first`) must have been removed by the caller.
pub fn resolve(specs: &[Spec], len: u64) -> Vec<R> {
    let l = len as u128;
    let mut out = Vec::new();
    for s in specs {
        match *s {
            Spec::FromTo(f, t) => {
                if f < l && f <= t {
                    out.push((f as u64, t.min(l - 1) as u64));
                }
            }
            Spec::From(f) => {
                if f < l {
                    out.push((f as u64, (l - 1) as u64));
                }
            }
            Spec::Suffix(n) => {
                if n > 0 && l > 0 {
                    out.push(((l - n.min(l)) as u64, (l - 1) as u64));
                }
            }
        }
    }
    out
}

#[derive(Clone, Debug, PartialEq, Eq, Serialize)]
pub enum Outcome {
    /// 200 with the complete entity, no Content-Range.
    Full,
    /// 416 with `Content-Range: bytes */L`.
    Unsatisfiable,
    Single(R),
    Multi(Vec<R>),
    /// 413, only where a multipart body length cannot be represented.
    TooLarge,
}

#[derive(Clone, Debug, Serialize)]
pub struct Expectation {
    pub allowed: Vec<Outcome>,
    /// Classification labels for evidence.
    pub class: &'static str,
    pub tolerated: Option<&'static str>,
}

fn outcomes_of(rs: Vec<R>, len: u64, hdr_overhead: u128, out: &mut Vec<Outcome>) {
    let push = |o: Outcome, out: &mut Vec<Outcome>| {
        if !out.contains(&o) {
            out.push(o)
        }
    };
    match rs.len() {
        0 => push(Outcome::Unsatisfiable, out),
        1 => push(Outcome::Single(rs[0]), out),
        n => {
            let sum: u128 = rs.iter().map(|r| (r.1 - r.0) as u128 + 1).sum();
            let must_multi = 2 * (sum + 80 * n as u128) < len as u128;
            let must_full = sum >= len as u128;
            // Generous upper bound of a multipart encoding: 70-byte boundary, 3x20 digits.
            let worst = sum + (n as u128) * (hdr_overhead + 2 + 2 + 70 + 2 + 21 + 63 + 2 + 2) + 2 + 2 + 70 + 2 + 2;
            if must_full {
                push(Outcome::Full, out);
            } else {
                push(Outcome::Multi(rs), out);
                if !must_multi {
                    push(Outcome::Full, out);
                }
                if worst > u64::MAX as u128 {
                    push(Outcome::TooLarge, out);
                }
            }
        }
    }
}

/// `entity_hdr_bytes`: total length of the entity's own header lines (they are repeated in each part).
pub fn expect(range: Option<&[u8]>, len: u64, entity_hdr_bytes: usize) -> Expectation {
    let p = parse_range(range);
    let mut allowed = Vec::new();
    let h = entity_hdr_bytes as u128;
    let (class, tolerated) = match p {
        Parsed::Absent => {
            allowed.push(Outcome::Full);
            ("absent", None)
        }
        Parsed::Garbage => {
            allowed.push(Outcome::Full);
            ("garbage", None)
        }
        Parsed::Strict(specs) | Parsed::Tolerated(specs, _) if len == 0 => {
            // The statement covers L > 0 only. For an empty entity nothing is satisfiable.
            let _ = specs;
            allowed.push(Outcome::Unsatisfiable);
            allowed.push(Outcome::Full);
            ("empty-entity", Some("len=0"))
        }
        Parsed::Strict(specs) => {
            let inverted = specs.iter().any(|s| matches!(s, Spec::FromTo(a, b) if b < a));
            if inverted {
                allowed.push(Outcome::Full);
            }
            outcomes_of(resolve(&specs, len), len, h, &mut allowed);
            if inverted {
                ("strict-inverted", Some("last<first"))
            } else {
                ("strict", None)
            }
        }
        Parsed::Tolerated(specs, why) => {
            allowed.push(Outcome::Full);
            outcomes_of(resolve(&specs, len), len, h, &mut allowed);
            ("tolerated", Some(why))
        }
    };
    Expectation {
        allowed,
        class,
        tolerated,
    }
}

#[cfg(test)]
mod tests {
    use super::*;
    fn ex(v: &str, l: u64) -> Vec<Outcome> {
        expect(Some(v.as_bytes()), l, 0).allowed
    }
    #[test]
    fn rfc_examples() {
        assert_eq!(ex("bytes=0-499", 10000), vec![Outcome::Single((0, 499))]);
        assert_eq!(ex("bytes=-500", 10000), vec![Outcome::Single((9500, 9999))]);
        assert_eq!(ex("bytes=9500-", 10000), vec![Outcome::Single((9500, 9999))]);
        assert_eq!(ex("bytes=0-0,-1", 10000), vec![Outcome::Multi(vec![(0, 0), (9999, 9999)])]);
        assert_eq!(ex("bytes=-0", 10), vec![Outcome::Unsatisfiable]);
        assert_eq!(ex("bytes=-11", 10), vec![Outcome::Single((0, 9))]);
        assert_eq!(ex("bytes=0-18446744073709551615", 10), vec![Outcome::Single((0, 9))]);
        assert_eq!(ex("bytes=10-", 10), vec![Outcome::Unsatisfiable]);
        assert_eq!(ex("bytes=+1-2", 10), vec![Outcome::Full]);
        assert_eq!(ex("items=1-2", 10), vec![Outcome::Full]);
        assert!(ex("bytes=1-2 ,3-4", 10).contains(&Outcome::Full));
        assert_eq!(ex("bytes=0-18446744073709551616", 10), vec![Outcome::Full]);
        assert_eq!(ex("bytes=10-18446744073709551616", 10), vec![Outcome::Full]);
        assert_eq!(ex("bytes=0-0,10-18446744073709551616", 10), vec![Outcome::Full]);
        assert_eq!(ex("bytes=0-1,5-6", 10), vec![Outcome::Multi(vec![(0, 1), (5, 6)]), Outcome::Full]);
        assert_eq!(ex("bytes=0-5,4-9", 10), vec![Outcome::Full]);
    }
}
