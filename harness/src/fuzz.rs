//! Byte-level entry points shared by the libFuzzer targets in /verif/fuzz and by the harness
//! (corpus replay in the quick tier, artifact replay, thorough-tier campaigns). Each function
//! decodes the bytes into the same structured cases the proptest generators build and runs the
//! same oracles; it returns the failed oracles as (property id, failure).

use crate::engine::{Acc, Fail};
use crate::entity::{EntitySpec, Mtime, PStep, ReqSpec};
use crate::props::{c01, c03, c04, c05, c06, c12, c13, c15, c16, c19, stream};
use crate::reqgen;
use crate::util::Bs;

pub struct Rd<'a> {
    d: &'a [u8],
    p: usize,
}

impl<'a> Rd<'a> {
    pub fn new(d: &'a [u8]) -> Rd<'a> {
        Rd { d, p: 0 }
    }
    pub fn u8(&mut self) -> u8 {
        let v = self.d.get(self.p).copied().unwrap_or(0);
        self.p += 1;
        v
    }
    pub fn u16(&mut self) -> u16 {
        (self.u8() as u16) << 8 | self.u8() as u16
    }
    pub fn u64(&mut self) -> u64 {
        let mut v = 0u64;
        for _ in 0..8 {
            v = v << 8 | self.u8() as u64;
        }
        v
    }
    pub fn pick(&mut self, n: usize) -> usize {
        if n == 0 {
            0
        } else {
            self.u8() as usize % n
        }
    }
    /// Bytes up to the next 0x00 separator (consumed) or the end.
    pub fn field(&mut self) -> &'a [u8] {
        let start = self.p.min(self.d.len());
        let rest = &self.d[start..];
        let n = rest.iter().position(|&b| b == 0).unwrap_or(rest.len());
        self.p = start + n + 1;
        &rest[..n]
    }
    pub fn done(&self) -> bool {
        self.p >= self.d.len()
    }
}

const LENS: &[u64] = &[0, 1, 2, 10, 240, 1000, 4096, 65536, 1 << 32, (1 << 63) - 1, 1 << 63, u64::MAX - 1, u64::MAX];

fn entity(r: &mut Rd) -> EntitySpec {
    let sel = r.u8();
    let len = if sel < 200 { LENS[sel as usize % LENS.len()] } else if sel < 230 { r.u16() as u64 } else { r.u64() };
    let e = r.u8();
    let etag = match e % 3 {
        0 => None,
        k => Some(reqgen::quote(reqgen::OPAQUES[(e as usize / 3) % reqgen::OPAQUES.len()], k == 2)),
    };
    let mtime = match r.u8() % 8 {
        0 => Mtime::None,
        1 => Mtime::At(0, 0),
        2 => Mtime::At(reqgen::T0, 0),
        3 => Mtime::At(reqgen::T0, 1),
        4 => Mtime::At(reqgen::T0, 999_999_999),
        5 => Mtime::Future(86_400, 0),
        6 => Mtime::At(7_258_118_400, 0),
        _ => Mtime::At(reqgen::T0, 500_000_000),
    };
    let nplan = r.u8() % 4;
    let mut plan = Vec::new();
    for _ in 0..nplan {
        plan.push(match r.u8() % 6 {
            0 => PStep::Chunk(1),
            1 => PStep::Chunk(7),
            2 => PStep::Chunk(4096),
            3 => PStep::Empty,
            4 => PStep::Pending,
            _ => PStep::Rest,
        });
    }
    if plan.is_empty() {
        plan.push(PStep::Rest);
    }
    let headers = if r.u8() % 2 == 0 { vec![] } else { vec![("content-type".to_string(), Bs::s("text/plain"))] };
    EntitySpec {
        len,
        etag,
        mtime,
        headers,
        plan,
        faults: vec![],
        tail: vec![],
        segments: 0,
        counting_hint: false,
        unfused_errors: false,
    }
}

const NAMES: [&str; 6] = ["range", "if-range", "if-match", "if-none-match", "if-modified-since", "if-unmodified-since"];

pub fn decode_serve(data: &[u8]) -> Option<c13::Case> {
    let mut r = Rd::new(data);
    let ent = entity(&mut r);
    let m = r.u8();
    let method = if m < 128 { "GET".to_string() } else { c13::METHODS[m as usize % c13::METHODS.len()].to_string() };
    let mut headers = Vec::new();
    while !r.done() && headers.len() < 8 {
        let name = NAMES[r.pick(NAMES.len())];
        let v = r.field();
        if http::HeaderValue::from_bytes(v).is_err() {
            continue;
        }
        headers.push((name.to_string(), Bs(v.to_vec())));
    }
    let req = ReqSpec { method, headers, version: (m % 13) % 5 };
    req.build()?;
    Some(c13::Case { ent, req, malformed: 1 })
}

fn collect(id: &'static str, r: Result<(), Fail>, out: &mut Vec<(&'static str, Fail)>) {
    if let Err(f) = r {
        if f.sig != "replay-decode" {
            out.push((id, f));
        }
    }
}

/// serve(): totality (C13) + framing (C01) + content (C02) + hints/eos (C12) + re-polls (C20).
pub fn serve_total(data: &[u8]) -> Vec<(&'static str, Fail)> {
    crate::engine::LIGHT.store(true, std::sync::atomic::Ordering::Relaxed);
    let mut out = Vec::new();
    let Some(c) = decode_serve(data) else { return out };
    let mut acc = Acc::new();
    collect("C13", c13::check(&c, &mut acc), &mut out);
    let c1 = c01::Case { ent: c.ent.clone(), req: c.req.clone() };
    collect("C01", c01::check_c01(&c1, &mut acc), &mut out);
    collect("C02", c01::check_c02(&c1, &mut acc), &mut out);
    collect("C12", c12::check_serve_pub(&c1, &mut acc, false), &mut out);
    collect("C20", c12::check_serve_pub(&c1, &mut acc, true), &mut out);
    out
}

pub fn decode_range(data: &[u8]) -> Option<c03::Case> {
    let mut r = Rd::new(data);
    let sel = r.u8();
    let len = if sel < 128 { (sel as u64 % 16) + 1 } else if sel < 200 { LENS[sel as usize % LENS.len()].max(1) } else { r.u64().max(1) };
    let v = r.field();
    http::HeaderValue::from_bytes(v).ok()?;
    Some(c03::Case {
        len,
        range: Bs(v.to_vec()),
        plan: vec![],
        headers: vec![],
        if_range: sel % 5 == 0,
        noop: (sel % 7) % 5,
    })
}

pub fn range_diff(data: &[u8]) -> Vec<(&'static str, Fail)> {
    let mut out = Vec::new();
    let Some(c) = decode_range(data) else { return out };
    let mut acc = Acc::new();
    collect("C03", c03::check(&c, &mut acc), &mut out);
    out
}

pub fn accept_encoding(data: &[u8]) -> Vec<(&'static str, Fail)> {
    let mut out = Vec::new();
    let mut r = Rd::new(data);
    let level = r.u8() as u32 % 10;
    let m = r.u8();
    let v = r.field();
    if http::HeaderValue::from_bytes(v).is_err() {
        return out;
    }
    let ae = if m % 16 == 0 { None } else { Some(Bs(v.to_vec())) };
    let mut acc = Acc::new();
    collect("C16", c16::check_c16(&ae, &mut acc), &mut out);
    let c = c16::Case17 {
        accept_encoding: ae,
        level,
        chunk: [1usize, 16, 4096][(m as usize / 16) % 3],
        method: ["GET", "HEAD", "POST"][(m as usize / 64) % 3].to_string(),
        payload: stream::Payload::Mixed,
        payload_len: (m as u32) * 3,
        earlier_levels: if m % 5 == 0 { vec![(m as u32 / 5) % 10] } else { vec![] },
        chunk_last: m % 2 == 0,
        write_mode: m % 3,
        more_lines: vec![],
        prior: if m % 7 == 0 { 1 + (m / 7) % 3 } else { 0 },
        version: (m % 11) % 5,
    };
    collect("C17", c16::check_c17(&c, &mut acc), &mut out);
    out
}

pub fn decode_stream(data: &[u8]) -> stream::SCase {
    use stream::{Op, Payload};
    let mut r = Rd::new(data);
    let mode = r.u8();
    let gzip = if mode % 3 == 0 { Some(1 + (mode as u32 / 3) % 9) } else { None };
    let chunks: &[usize] = if gzip.is_some() { stream::GZ_CHUNKS } else { stream::RAW_CHUNKS };
    const MORE_CHUNKS: &[usize] = &[5, 6, 8, 9, 12, 15, 16, 17, 31, 32, 33, 63, 65, 100, 127, 128, 129, 255, 256, 257, 999, 1000, 1023, 1024, 1025, 1499, 1500, 1501, 2047, 2048, 2049, 3000, 4095, 4097, 5000, 8191, 8192, 10_000];
    let ci = r.u8() as usize;
    let chunk = if ci < 128 { chunks[ci % chunks.len()] } else { MORE_CHUNKS[(ci - 128) % MORE_CHUNKS.len()] };
    let payload = [Payload::Hash, Payload::Runs, Payload::Mixed, Payload::Zeros][r.pick(4)];
    let extra_polls = r.pick(5);
    let mut ops = Vec::new();
    while !r.done() && ops.len() < 32 {
        let o = r.u8();
        let sizes = stream::sizes_for(chunk);
        let size = |r: &mut Rd| -> u32 {
            let s = r.u8();
            if s < 200 {
                sizes[s as usize % sizes.len()].min(3_000)
            } else {
                (r.u16() as u32) % 3_000
            }
        };
        ops.push(match o % 16 {
            0..=3 => Op::Write(size(&mut r)),
            4 | 5 => Op::WriteAll(size(&mut r)),
            6 => Op::WriteV(size(&mut r), size(&mut r)),
            7 | 8 => Op::Flush,
            9 | 10 => Op::FlushThenDrain,
            11 => Op::PollUntilPending,
            12 => Op::Poll(1 + r.u8() % 3),
            13 => Op::Sample,
            14 => Op::Abort,
            _ => Op::DropBody,
        });
    }
    stream::SCase {
        gzip,
        chunk,
        payload,
        ops,
        extra_polls, ..Default::default()
    }
}

pub fn stream_ops(data: &[u8]) -> Vec<(&'static str, Fail)> {
    let mut out = Vec::new();
    let c = decode_stream(data);
    let run = stream::execute(&c);
    let ctx = |f: Fail| Fail {
        sig: f.sig,
        msg: format!("{}; case {}; trace {}", f.msg, serde_json::to_string(&c).unwrap_or_default(), run.trace.summary()),
    };
    if let Some(f) = stream::first_issue(&run, &["internal:"]) {
        out.push(("INTERNAL", ctx(f)));
        return out;
    }
    let has_fault = c.ops.iter().any(|o| matches!(o, stream::Op::Abort | stream::Op::DropBody));
    let mode = if c.gzip.is_some() { "gzip" } else { "identity" };
    if has_fault {
        if let Some(f) = stream::first_issue(&run, &["abort:", "drop:"]) {
            // same signature as c11::check
            out.push(("C11", ctx(Fail { sig: format!("{}:{mode}", f.sig), msg: f.msg })));
        }
    } else if c.gzip.is_some() {
        if let Some(f) = stream::first_issue(&run, &["gz:", "w:"]) {
            out.push(("C09", ctx(f)));
        }
    } else if let Some(f) = stream::first_issue(&run, &["w:"]) {
        out.push(("C08", ctx(f)));
    }
    let what = if c.gzip.is_some() { "streaming-gzip" } else { "streaming-identity" };
    if !run.trace.steps.iter().any(|s| matches!(s.ev, crate::drain::Ev::Panic(_))) {
        if let Err(f) = crate::drain::check_terminated_stays(&run.trace, what) {
            out.push(("C20", ctx(f)));
        }
    }
    if !run.body_dropped {
        if let Err(f) = crate::drain::check_eos_truthful(&run.trace, what).and_then(|_| crate::drain::check_hints(&run.trace, false, what)) {
            out.push(("C12", ctx(f)));
        }
    }
    out
}

/// serve(): If-Range (C05), multipart framing (C06) and HEAD/GET agreement (C15) on the same decoded
/// case as `serve_total`, with modification times that do not depend on the wall clock (these
/// oracles compare several serve() calls).
pub fn serve_sem(data: &[u8]) -> Vec<(&'static str, Fail)> {
    crate::engine::LIGHT.store(true, std::sync::atomic::Ordering::Relaxed);
    let mut out = Vec::new();
    let Some(mut c) = decode_serve(data) else { return out };
    if matches!(c.ent.mtime, Mtime::Future(..)) || matches!(c.ent.mtime, Mtime::At(s, _) if s + 5 >= reqgen::now_secs()) {
        c.ent.mtime = Mtime::At(reqgen::T0, 0);
    }
    if c.req.method != "GET" && c.req.method != "HEAD" {
        c.req.method = "GET".into();
    }
    let mut acc = Acc::new();
    let c1 = c01::Case { ent: c.ent.clone(), req: c.req.clone() };
    collect("C05", c05::check(&c1, &mut acc), &mut out);
    collect("C06", c06::check(&c1, &mut acc), &mut out);
    collect("C15", c15::check_serve(&c1, &mut acc), &mut out);
    out
}

pub fn decode_cond(data: &[u8]) -> Option<c04::Case> {
    let mut r = Rd::new(data);
    let e = r.u8();
    let etag = match e % 4 {
        0 => None,
        k => Some(reqgen::quote(reqgen::OPAQUES[(e as usize / 4) % reqgen::OPAQUES.len()], k == 2)),
    };
    let mtime = match r.u8() % 6 {
        0 => Mtime::None,
        1 => Mtime::At(reqgen::T0, 0),
        2 => Mtime::At(reqgen::T0, 1),
        3 => Mtime::At(reqgen::T0, 999_999_999),
        4 => Mtime::At(0, 0),
        _ => Mtime::At(reqgen::T0 + 86_400, 500_000_000),
    };
    let flags = r.u8();
    let mut field = |on: bool| -> Option<Option<Bs>> {
        if !on {
            return Some(None);
        }
        let v = r.field();
        http::HeaderValue::from_bytes(v).ok()?;
        Some(Some(Bs(v.to_vec())))
    };
    let if_match = field(flags & 1 != 0)?;
    let if_none_match = field(flags & 2 != 0)?;
    let if_modified_since = field(flags & 4 != 0)?;
    let if_unmodified_since = field(flags & 8 != 0)?;
    let range = field(flags & 16 != 0)?;
    Some(c04::Case {
        etag,
        mtime,
        method: if flags & 32 != 0 { "HEAD".into() } else { "GET".into() },
        if_match,
        if_none_match,
        if_modified_since,
        if_unmodified_since,
        range,
    })
}

/// Conditional requests against the literal RFC 7232 evaluator (C04).
pub fn cond_diff(data: &[u8]) -> Vec<(&'static str, Fail)> {
    crate::engine::LIGHT.store(true, std::sync::atomic::Ordering::Relaxed);
    let mut out = Vec::new();
    let Some(c) = decode_cond(data) else { return out };
    let mut acc = Acc::new();
    collect("C04", c04::check(&c, &mut acc), &mut out);
    out
}

struct DirState {
    tree: c19::Tree,
    rt: tokio::runtime::Runtime,
    dirs: (std::sync::Arc<http_serve::dir::FsDir>, std::sync::Arc<http_serve::dir::FsDir>),
}

/// FsDir::get on arbitrary request paths against a fixed tree (C19). The tree and the runtime are
/// built once per process; the check never modifies the tree.
pub fn fsdir_path(data: &[u8]) -> Vec<(&'static str, Fail)> {
    use http_serve::dir::FsDir;
    static STATE: std::sync::OnceLock<DirState> = std::sync::OnceLock::new();
    let mut out = Vec::new();
    let st = STATE.get_or_init(|| {
        let tree = c19::make_tree(&format!("c19-fuzz-{}", std::process::id()));
        let rt = tokio::runtime::Builder::new_multi_thread().worker_threads(1).max_blocking_threads(2).build().expect("runtime");
        let dirs = (FsDir::builder().auto_gzip(true).for_path(&tree.base).unwrap(), FsDir::builder().auto_gzip(false).for_path(&tree.base).unwrap());
        // The state lives for the whole process: remove the scratch tree when the process exits.
        static DIR: std::sync::OnceLock<std::path::PathBuf> = std::sync::OnceLock::new();
        extern "C" fn cleanup() {
            if let Some(d) = DIR.get() {
                let _ = std::fs::remove_dir_all(d);
            }
        }
        if DIR.set(tree.scratch.dir.clone()).is_ok() {
            unsafe { libc::atexit(cleanup) };
        }
        DirState { tree, rt, dirs }
    });
    let mut r = Rd::new(data);
    let m = r.u8();
    let ae = r.field();
    let Ok(path) = std::str::from_utf8(&data[r.p.min(data.len())..]) else { return out };
    let accept_encoding = match m % 4 {
        0 => None,
        1 => Some("gzip".to_string()),
        2 => Some("identity".to_string()),
        _ => match std::str::from_utf8(ae) {
            // only values on which the C16 reference gives one answer (C19's oracle needs the decision)
            Ok(s) if http::HeaderValue::from_str(s).is_ok() && matches!(c16::reference(Some(s.as_bytes())), Some(v) if v.len() == 1) => Some(s.to_string()),
            _ => return out,
        },
    };
    let c = c19::Case {
        path: path.to_string(),
        accept_encoding,
        auto_gzip: m & 4 != 0,
    };
    let mut acc = Acc::new();
    collect("C19", c19::check(&st.rt, &st.tree, &st.dirs, &c, &mut acc), &mut out);
    out
}

pub const TARGETS: &[(&str, fn(&[u8]) -> Vec<(&'static str, Fail)>)] = &[
    ("serve_total", serve_total),
    ("range_diff", range_diff),
    ("accept_encoding", accept_encoding),
    ("stream_ops", stream_ops),
    ("serve_sem", serve_sem),
    ("cond_diff", cond_diff),
    ("fsdir_path", fsdir_path),
];

pub fn target(name: &str) -> Option<fn(&[u8]) -> Vec<(&'static str, Fail)>> {
    TARGETS.iter().find(|(n, _)| *n == name).map(|(_, f)| *f)
}

/// Which targets serve a property (primary first).
pub fn targets_for(id: &str) -> Vec<&'static str> {
    match id {
        "C13" | "C01" | "C02" => vec!["serve_total"],
        "C03" => vec!["range_diff"],
        "C16" | "C17" => vec!["accept_encoding"],
        "C08" | "C09" | "C11" => vec!["stream_ops"],
        "C12" | "C20" => vec!["serve_total", "stream_ops"],
        "C05" | "C06" | "C15" => vec!["serve_sem"],
        "C04" => vec!["cond_diff"],
        "C19" => vec!["fsdir_path"],
        _ => vec![],
    }
}
