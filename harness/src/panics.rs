//! Quiet panic hook + helpers to attribute panics.

use std::any::Any;
use std::cell::RefCell;

thread_local! {
    static LAST: RefCell<Option<String>> = const { RefCell::new(None) };
}

pub fn install_hook() {
    let verbose = std::env::var_os("VP_VERBOSE_PANICS").is_some();
    let prev = std::panic::take_hook();
    std::panic::set_hook(Box::new(move |info| {
        let loc = info
            .location()
            .map(|l| format!("{}:{}", l.file(), l.line()))
            .unwrap_or_default();
        let msg = if let Some(s) = info.payload().downcast_ref::<&str>() {
            s.to_string()
        } else if let Some(s) = info.payload().downcast_ref::<String>() {
            s.clone()
        } else {
            "<non-string panic>".to_string()
        };
        let _ = LAST.try_with(|l| *l.borrow_mut() = Some(format!("{msg} at {loc}")));
        if verbose {
            prev(info);
        }
    }));
}

/// The message of the last panic on this thread (not consumed).
pub fn last_message() -> String {
    LAST.try_with(|l| l.try_borrow().ok().and_then(|b| b.clone())).ok().flatten().unwrap_or_default()
}

pub fn payload_msg(p: &Box<dyn Any + Send>) -> String {
    let base = if let Some(s) = p.downcast_ref::<&str>() {
        s.to_string()
    } else if let Some(s) = p.downcast_ref::<String>() {
        s.clone()
    } else {
        "<non-string panic>".to_string()
    };
    let last = LAST.try_with(|l| l.borrow_mut().take()).ok().flatten();
    match last {
        Some(l) if l.starts_with(&base) => l,
        _ => base,
    }
}

/// Runs `f`, turning a panic into `Err(message with location)`.
pub fn guard<T>(f: impl FnOnce() -> T) -> Result<T, String> {
    std::panic::catch_unwind(std::panic::AssertUnwindSafe(f)).map_err(|p| payload_msg(&p))
}

/// Strips line numbers so that signatures survive unrelated edits.
pub fn panic_sig(msg: &str) -> String {
    let m = msg.split(" at ").next().unwrap_or(msg);
    let m: String = m
        .chars()
        .map(|c| if c.is_ascii_digit() { '#' } else if c.is_whitespace() { '_' } else { c })
        .collect();
    let mut out = String::new();
    let mut last = ' ';
    for c in m.chars() {
        if !(c == '#' && last == '#') {
            out.push(c);
        }
        last = c;
    }
    out.truncate(60);
    out
}
