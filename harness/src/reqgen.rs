//! Shared proptest generators: entities, and request headers generated *relative to* the entity
//! (its own tag, its tag with W/ toggled, dates around its Last-Modified second, range positions
//! around its length).

use crate::entity::{EntitySpec, Mtime, PStep, ReqSpec};
use crate::util::Bs;
use proptest::collection::vec;
use proptest::prelude::*;
use std::time::{Duration, UNIX_EPOCH};

pub const BIG_LENS: &[u64] = &[
    1 << 20,
    (1 << 32) - 1,
    1 << 32,
    (1 << 32) + 1,
    (1 << 63) - 1,
    1 << 63,
    (1 << 63) + 1,
    u64::MAX - 1,
    u64::MAX,
    // decimal-width boundaries (a digit-counting slip shows only here)
    999_999_999_999_999,
    1_000_000_000_000_000,
    9_999_999_999_999_999,
    10_000_000_000_000_000,
    99_999_999_999_999_999,
    999_999_999_999_999_999,
    1_000_000_000_000_000_000,
    9_999_999_999_999_999_999,
    10_000_000_000_000_000_000,
];

pub const EDGE_LENS: &[u64] = &[0, 1, 2, 3, 10, 240, 1000, 4095, 4096, 4097, 65535, 65536, 65537, 99, 100, 999, 9_999, 10_000, 99_999, 100_000];

pub fn len_strategy() -> BoxedStrategy<u64> {
    prop_oneof![
        4 => 0u64..=16,
        4 => 17u64..=3000,
        2 => proptest::sample::select(EDGE_LENS),
        1 => proptest::sample::select(BIG_LENS),
        1 => 3001u64..=200_000,
    ]
    .boxed()
}

/// Lengths whose bodies are cheap to drain completely.
pub fn small_len_strategy() -> BoxedStrategy<u64> {
    prop_oneof![3 => 0u64..=16, 5 => 17u64..=3000, 1 => proptest::sample::select(&EDGE_LENS[..10]), 1 => proptest::sample::select(&EDGE_LENS[13..])].boxed()
}

pub const OPAQUES: &[&[u8]] = &[
    b"foo", b"", b"a, b", b"x y", b"bar", b"\x80\xff", b"W/", b"*", b"foo,", b"1234567890abcdef",
    // the list separators themselves, backslashes (ordinary bytes in an entity-tag), Latin-1 and
    // U+FFFD spelled out
    b"5D41aB", b",", b", ", b"\\", b"C:\\dir\\", b"a\\\\", b"v\xe9", b"\xef\xbf\xbd",
];

/// Bytes of an opaque tag: etagc (0x21, 0x23-0x7E, obs-text) and space, biased towards the bytes a
/// list or quoted-string parser treats specially.
pub fn opaque_strategy() -> BoxedStrategy<Vec<u8>> {
    let byte = prop_oneof![
        6 => proptest::sample::select(&b",, \\\\W/*;=a"[..]),
        3 => prop_oneof![Just(0x21u8), 0x23u8..=0x7e],
        2 => 0x80u8..=0xff,
    ];
    vec(byte, 0..8).boxed()
}

pub fn etag_strategy() -> BoxedStrategy<Option<Bs>> {
    prop_oneof![
        4 => Just(None),
        6 => proptest::sample::select(OPAQUES).prop_map(|o| Some(quote(o, false))),
        5 => proptest::sample::select(OPAQUES).prop_map(|o| Some(quote(o, true))),
        2 => opaque_strategy().prop_map(|o| Some(quote(&o, false))),
        1 => opaque_strategy().prop_map(|o| Some(quote(&o, true))),
    ]
    .boxed()
}

/// Tags that differ from `tag` only in the case of ASCII letters of the opaque part (the `W/`
/// prefix is left alone): comparison is byte-wise, so these are different tags.
pub fn case_twins(tag: &[u8]) -> Vec<Vec<u8>> {
    let start = if tag.starts_with(b"W/") { 2 } else { 0 };
    let mut out = Vec::new();
    let fs: [fn(u8) -> u8; 3] = [|b| b.to_ascii_uppercase(), |b| b.to_ascii_lowercase(), |b| if b.is_ascii_lowercase() { b.to_ascii_uppercase() } else { b.to_ascii_lowercase() }];
    for f in fs {
        let mut t = tag.to_vec();
        for b in &mut t[start..] {
            *b = f(*b);
        }
        if t != tag && !out.contains(&t) {
            out.push(t);
        }
    }
    // only the first letter
    if let Some(i) = tag[start..].iter().position(|b| b.is_ascii_alphabetic()) {
        let mut t = tag.to_vec();
        t[start + i] ^= 0x20;
        if !out.contains(&t) {
            out.push(t);
        }
    }
    out
}

/// Variants of a tag that differ from it in exactly one byte of the opaque part (same class of
/// byte: obs-text stays obs-text), at the first, a middle and the last position.
pub fn one_byte_off(tag: &[u8]) -> Vec<Vec<u8>> {
    let start = if tag.starts_with(b"W/") { 3 } else { 1 };
    let end = tag.len().saturating_sub(1);
    let mut out = Vec::new();
    if end <= start {
        return out;
    }
    let mut pos = vec![start, (start + end) / 2, end - 1];
    pos.dedup();
    for p in pos {
        let mut t = tag.to_vec();
        t[p] ^= 1;
        if t[p] == b'"' || t[p] < 0x21 || t[p] == 0x7f {
            t[p] = tag[p] ^ 2;
        }
        if t[p] == b'"' || t[p] < 0x21 || t[p] == 0x7f {
            continue;
        }
        out.push(t);
    }
    out
}

pub fn quote(opaque: &[u8], weak: bool) -> Bs {
    let mut v = Vec::new();
    if weak {
        v.extend_from_slice(b"W/");
    }
    v.push(b'"');
    v.extend_from_slice(opaque);
    v.push(b'"');
    Bs(v)
}

/// 1994-11-06 08:49:37 GMT, the date used throughout RFC 7231.
pub const T0: u64 = 784_111_777;

pub fn mtime_strategy() -> BoxedStrategy<Mtime> {
    prop_oneof![
        2 => Just(Mtime::None),
        1 => Just(Mtime::At(0, 0)),
        1 => Just(Mtime::At(0, 1)),
        3 => Just(Mtime::At(T0, 0)),
        1 => Just(Mtime::At(T0, 1)),
        1 => Just(Mtime::At(T0, 1_000_000)),
        1 => Just(Mtime::At(T0, 500_000_000)),
        1 => Just(Mtime::At(T0, 999_999_999)),
        1 => (1u64..2_000_000_000, 0u32..1_000_000_000).prop_map(|(s, n)| Mtime::At(s, n)),
        1 => Just(Mtime::Future(86_400, 0)),
        1 => Just(Mtime::Future(86_400, 123_456_789)),
        1 => Just(Mtime::At(7_258_118_400, 0)), // year 2200
        // recent: seconds to two minutes before the run (resolved when the case is generated)
        1 => (0u64..130, prop_oneof![Just(0u32), 1u32..1_000_000_000]).prop_map(|(k, n)| Mtime::At(now_secs().saturating_sub(k), n)),
        1 => prop_oneof![Just(Mtime::Before(86_400, 0)), Just(Mtime::Before(0, 1)), Just(Mtime::Before(1, 500_000_000)), Just(Mtime::Before(3_000_000_000, 0))],
    ]
    .boxed()
}

/// Modification times that are not in the future (C04's stated domain).
pub fn past_mtime_strategy() -> BoxedStrategy<Mtime> {
    mtime_strategy()
        .prop_map(|m| match m {
            Mtime::Future(..) => Mtime::At(T0, 250_000_000),
            // recent times stay (at least 8 s old: well clear of the clamp), later ones are folded back
            Mtime::At(s, n) if s > 1_700_000_000 && !(s + 8 <= now_secs() && s + 200 >= now_secs()) => Mtime::At(s % 1_700_000_000, n),
            m => m,
        })
        .boxed()
}

pub fn pstep_strategy() -> BoxedStrategy<PStep> {
    prop_oneof![
        6 => proptest::sample::select(&[1u32, 2, 3, 7, 64, 4096][..]).prop_map(PStep::Chunk),
        2 => (1u32..300).prop_map(PStep::Chunk),
        2 => Just(PStep::Rest),
        1 => Just(PStep::Empty),
        1 => Just(PStep::Pending),
    ]
    .boxed()
}

pub fn plan_strategy() -> BoxedStrategy<Vec<PStep>> {
    prop_oneof![
        20 => Just(vec![PStep::Rest]),
        50 => vec(pstep_strategy(), 1..6),
        // long runs: a chunk, then dozens to hundreds of empty chunks (or Pendings), then the rest;
        // and a range handed over in dozens of equal chunks
        2 => (1u32..8, proptest::sample::select(&[31usize, 32, 33, 127, 128, 129, 300][..]), any::<bool>()).prop_map(|(k, n, pend)| {
            let mut v = vec![PStep::Chunk(k)];
            v.extend(std::iter::repeat(if pend { PStep::Pending } else { PStep::Empty }).take(n));
            v.push(PStep::Rest);
            v
        }),
        1 => (1u32..4, proptest::sample::select(&[31usize, 32, 33, 64, 128][..])).prop_map(|(k, n)| {
            let mut v: Vec<PStep> = std::iter::repeat(PStep::Chunk(k)).take(n).collect();
            v.push(PStep::Rest);
            v
        }),
    ]
    .boxed()
}

pub const HDR_NAMES: &[&str] = &["content-type", "x-a", "x-b", "content-language", "x-long-header-name-for-width"];

pub fn hdr_value_strategy() -> BoxedStrategy<Bs> {
    prop_oneof![
        3 => Just(Bs::s("application/octet-stream")),
        1 => Just(Bs::s("")),
        2 => vec(prop_oneof![32u8..127, 128u8..=255], 0..40).prop_map(Bs),
        1 => (0usize..=200).prop_map(|n| Bs(vec![b'v'; n])),
    ]
    .boxed()
}

pub fn entity_headers_strategy() -> BoxedStrategy<Vec<(String, Bs)>> {
    prop_oneof![
        8 => Just(vec![]),
        12 => vec((proptest::sample::select(HDR_NAMES).prop_map(|s| s.to_string()), hdr_value_strategy()), 0..=4),
        // the *number* of headers and the length of a value: dozens of names (some repeated), a value
        // of a few KB
        1 => vec(((0u8..48).prop_map(|i| format!("x-h{i}")), hdr_value_strategy()), 5..=70),
        1 => (vec((proptest::sample::select(HDR_NAMES).prop_map(|s| s.to_string()), hdr_value_strategy()), 0..=3), 201usize..5000).prop_map(|(mut v, n)| {
            v.push(("x-long-value".to_string(), Bs(vec![b'L'; n])));
            v
        }),
    ]
    .boxed()
}

pub fn entity_strategy(lens: BoxedStrategy<u64>) -> BoxedStrategy<EntitySpec> {
    (lens, etag_strategy(), mtime_strategy(), entity_headers_strategy(), plan_strategy(), prop_oneof![3 => Just(0u8), 1 => Just(2u8), 1 => Just(3u8)], proptest::bool::weighted(0.25))
        .prop_map(|(len, etag, mtime, headers, plan, segments, counting_hint)| EntitySpec {
            len,
            etag,
            mtime,
            headers,
            plan,
            faults: vec![],
            tail: vec![],
            segments,
            counting_hint,
            unfused_errors: false,
        })
        .boxed()
}

// ------------------------------------------------------------------------------------------------
// Range values.

/// A position relative to the entity length `l`.
pub fn pos_strategy(l: u64) -> BoxedStrategy<u128> {
    let l = l as u128;
    let near: Vec<u128> = [0u128, 1, 2, l / 2, l.saturating_sub(2), l.saturating_sub(1), l, l + 1, l + 2]
        .into_iter()
        .collect();
    let mut pow10: Vec<u128> = Vec::new();
    let mut p10 = 10u128;
    while p10 <= l.max(10) && p10 < (1u128 << 64) {
        pow10.push(p10 - 1);
        pow10.push(p10);
        p10 *= 10;
    }
    let far: Vec<u128> = vec![
        1 << 32,
        (1 << 63) - 1,
        1 << 63,
        u64::MAX as u128 - 1,
        u64::MAX as u128,
    ];
    let hi = l.max(1);
    prop_oneof![
        6 => proptest::sample::select(near),
        4 => 0u128..hi,
        1 => proptest::sample::select(far),
        1 => proptest::sample::select(pow10),
    ]
    .boxed()
}

pub fn spec_string(l: u64, with_beyond: bool) -> BoxedStrategy<String> {
    let p = move || {
        if with_beyond {
            prop_oneof![20 => pos_strategy(l), 1 => Just(1u128 << 64), 1 => Just(10u128.pow(25))].boxed()
        } else {
            pos_strategy(l)
        }
    };
    prop_oneof![
        8 => (p(), p()).prop_map(|(a, b)| { let (a, b) = if a <= b { (a, b) } else { (b, a) }; format!("{a}-{b}") }),
        2 => (p(), p()).prop_map(|(a, b)| format!("{a}-{b}")),
        4 => p().prop_map(|a| format!("{a}-")),
        4 => p().prop_map(|n| format!("-{n}")),
        // zero-padded spellings (1*DIGIT allows leading zeros), up to 26 characters wide
        1 => (p(), p(), 1usize..27, 0u8..3).prop_map(|(a, b, w, which)| {
            let (a, b) = if a <= b { (a, b) } else { (b, a) };
            match which {
                0 => format!("{a:0w$}-{b}"),
                1 => format!("{a}-{b:0w$}"),
                _ => format!("-{b:0w$}"),
            }
        }),
    ]
    .boxed()
}

/// A grammatical `bytes=` value with 1..=max specs, separators `,` or `, `.
pub fn range_value(l: u64, max: usize, with_beyond: bool) -> BoxedStrategy<String> {
    (vec((spec_string(l, with_beyond), any::<bool>()), 1..=max)).prop_map(|specs| {
        let mut s = String::from("bytes=");
        for (i, (sp, space)) in specs.iter().enumerate() {
            if i > 0 {
                s.push(',');
                if *space {
                    s.push(' ');
                }
            }
            s.push_str(sp);
        }
        s
    })
    .boxed()
}

/// Several satisfiable ranges small enough to be served as multipart (requires l >= 400).
pub fn multipart_range_value(l: u64, max_parts: usize) -> BoxedStrategy<String> {
    // Each part at most l / (4 * parts) - 80 bytes long, so that 2 * sum(len + 80) < l.
    (2..=max_parts)
        .prop_flat_map(move |n| {
            let budget = (l / (2 * n as u64 + 1)).saturating_sub(81).max(1);
            vec((0..l, 1..=budget, 0u8..8, any::<bool>()), n)
        })
        .prop_map(move |v| {
            let mut s = String::from("bytes=");
            let mut prev: Option<(u64, u64)> = None;
            for (i, (start, len, form, space)) in v.into_iter().enumerate() {
                if i > 0 {
                    s.push(',');
                    if space {
                        s.push(' ');
                    }
                }
                // Anchor some ranges to the previous one: duplicate, adjacent, overlapping.
                let (a, b) = match (form, prev) {
                    (0, Some((pa, pb))) => (pa, pb),
                    (1, Some((_, pb))) if pb < l - 1 => (pb + 1, pb.saturating_add(len).min(l - 1)),
                    (2, Some((pa, pb))) => (pa + (pb - pa) / 2, pb.saturating_add(len / 2).min(l - 1)),
                    _ => (start, start.saturating_add(len - 1).min(l - 1)),
                };
                let b = b.min(a.saturating_add(len.max(1) - 1)).max(a);
                prev = Some((a, b));
                match form {
                    6 if b == l - 1 => s.push_str(&format!("{a}-")),
                    7 if b == l - 1 => s.push_str(&format!("-{}", l - a)),
                    5 => s.push_str(&format!("{a}-{b}")),
                    _ => s.push_str(&format!("{a}-{b}")),
                }
            }
            s
        })
        .boxed()
}

// ------------------------------------------------------------------------------------------------
// Conditional header values.

pub fn toggle_weak(tag: &[u8]) -> Vec<u8> {
    match tag.strip_prefix(b"W/") {
        Some(r) => r.to_vec(),
        None => [b"W/", tag].concat(),
    }
}

/// Candidate tags for lists, relative to the entity's tag.
pub fn tag_candidates(etag: &Option<Bs>) -> Vec<Vec<u8>> {
    let mut c: Vec<Vec<u8>> = vec![
        b"\"other\"".to_vec(),
        b"W/\"other\"".to_vec(),
        b"\"a, b\"".to_vec(),
        b"W/\"x y\"".to_vec(),
        b"\"\"".to_vec(),
    ];
    if let Some(t) = etag {
        c.push(t.0.clone());
        c.push(t.0.clone());
        c.push(toggle_weak(&t.0));
        // A tag of which the entity's tag is a prefix / suffix.
        let mut longer = t.0.clone();
        longer.insert(longer.len() - 1, b'x');
        c.push(longer);
        c.extend(one_byte_off(&t.0).into_iter().take(2));
        c.extend(case_twins(&t.0));
    }
    // neighbours whose closing quote, separator and opening quote spell a quoted separator
    c.push(b"\"a,\"".to_vec());
    c.push(b"\",b\"".to_vec());
    c.push(b"\"x\\\"".to_vec());
    c
}

pub const LIST_SEPS: &[&str] = &[",", ", ", ",\t", ",  "];

pub fn tag_list(etag: &Option<Bs>, max: usize) -> BoxedStrategy<Bs> {
    let cands = tag_candidates(etag);
    prop_oneof![
        1 => Just(Bs::s("*")),
        8 => vec((proptest::sample::select(cands), proptest::sample::select(LIST_SEPS)), 1..=max).prop_map(|v| {
            let mut out = Vec::new();
            for (i, (t, sep)) in v.iter().enumerate() {
                if i > 0 {
                    out.extend_from_slice(sep.as_bytes());
                }
                out.extend_from_slice(t);
            }
            Bs(out)
        }),
    ]
    .boxed()
}

pub fn http_date(secs: u64) -> String {
    httpdate::fmt_http_date(UNIX_EPOCH + Duration::from_secs(secs))
}

/// The second the entity was last modified in, if known statically.
pub fn lm_second(m: Mtime) -> Option<u64> {
    match m {
        Mtime::At(s, _) => Some(s),
        _ => None,
    }
}

pub fn now_secs() -> u64 {
    std::time::SystemTime::now().duration_since(UNIX_EPOCH).unwrap().as_secs()
}

/// HTTP-dates before / equal to / after the Last-Modified second.
pub fn date_value(m: Mtime) -> BoxedStrategy<Bs> {
    let base = match m {
        Mtime::At(s, _) => s,
        Mtime::None => T0,
        Mtime::Future(..) => now_secs(),
        Mtime::Before(..) => 0,
    };
    prop_oneof![
        3 => Just(base),
        2 => Just(base.saturating_sub(1)),
        2 => Just(base + 1),
        1 => Just(base.saturating_sub(86_400)),
        1 => Just(base + 86_400),
        1 => Just(0u64),
        // seconds that do not fit 31 / 32 bits, and the last representable year
        1 => proptest::sample::select(&[(1u64 << 31) - 1, 1 << 31, (1 << 32) - 1, 1 << 32, (1 << 32) + 784_111_777, 253_402_300_799][..]),
    ]
    .prop_map(|s| Bs::s(&http_date(s)))
    .boxed()
}

/// Obsolete but valid date formats for the same instant (RFC 7231 7.1.1.1).
pub fn obsolete_date_forms(secs: u64) -> Vec<String> {
    let imf = http_date(secs); // "Sun, 06 Nov 1994 08:49:37 GMT"
    let p: Vec<&str> = imf.split(' ').collect();
    let wk_long = match &p[0][..3] {
        "Mon" => "Monday",
        "Tue" => "Tuesday",
        "Wed" => "Wednesday",
        "Thu" => "Thursday",
        "Fri" => "Friday",
        "Sat" => "Saturday",
        _ => "Sunday",
    };
    let year: u32 = p[3].parse().unwrap_or(1994);
    let mut out = Vec::new();
    if (1970..2070).contains(&year) {
        out.push(format!("{wk_long}, {}-{}-{:02} {} GMT", p[1], p[2], year % 100, p[4]));
    }
    let day = p[1].trim_start_matches('0');
    out.push(format!("{} {} {:>2} {} {}", &p[0][..3], p[2], day, p[4], p[3]));
    out
}

pub fn if_range_value(ent: &EntitySpec) -> BoxedStrategy<Bs> {
    let mut c: Vec<Vec<u8>> = vec![b"\"other\"".to_vec(), b"garbage".to_vec(), b"".to_vec(), b"\"".to_vec(), b"W/".to_vec()];
    if let Some(t) = &ent.etag {
        let t = &t.0;
        for _ in 0..4 {
            c.push(t.clone());
        }
        c.push(toggle_weak(t));
        c.push(t[..t.len() - 1].to_vec());
        c.push([&t[..], b" "].concat());
        c.push(t.to_ascii_uppercase());
        c.push(t.to_ascii_lowercase());
        if t.len() > 3 {
            c.push([&t[..t.len() - 2], b"\""].concat());
        }
        let mut longer = t.clone();
        longer.insert(longer.len() - 1, b'x');
        c.push(longer);
        c.extend(one_byte_off(t));
    }
    prop_oneof![
        4 => proptest::sample::select(c).prop_map(Bs),
        2 => date_value(ent.mtime),
    ]
    .boxed()
}

/// Bytes `http::HeaderValue` accepts.
pub fn header_byte() -> BoxedStrategy<u8> {
    prop_oneof![10 => 32u8..127, 1 => Just(9u8), 2 => 128u8..=255].boxed()
}

pub fn arbitrary_value() -> BoxedStrategy<Bs> {
    vec(header_byte(), 0..40).prop_map(Bs).boxed()
}

#[derive(Clone, Copy, Debug)]
pub struct Profile {
    /// Probability weights (out of 10) of each header being present.
    pub range: u32,
    pub if_range: u32,
    pub cond: u32,
    /// Allow HEAD and other methods.
    pub methods: bool,
    pub max_specs: usize,
    pub multipart_bias: bool,
}

impl Profile {
    pub const ALL: Profile = Profile {
        range: 7,
        if_range: 2,
        cond: 2,
        methods: false,
        max_specs: 4,
        multipart_bias: true,
    };
}

fn maybe<T: Clone + std::fmt::Debug + 'static>(w: u32, s: BoxedStrategy<T>) -> BoxedStrategy<Option<T>> {
    if w == 0 {
        return Just(None).boxed();
    }
    if w >= 10 {
        return s.prop_map(Some).boxed();
    }
    prop_oneof![(10 - w) => Just(None), w => s.prop_map(Some)].boxed()
}

pub fn request_strategy(ent: &EntitySpec, p: Profile) -> BoxedStrategy<ReqSpec> {
    let l = ent.len;
    let range: BoxedStrategy<String> = if p.multipart_bias && l >= 400 {
        prop_oneof![3 => range_value(l, p.max_specs, true), 2 => multipart_range_value(l, 8.min(p.max_specs.max(2)))].boxed()
    } else {
        range_value(l, p.max_specs, true)
    };
    let method: BoxedStrategy<String> = if p.methods {
        prop_oneof![6 => Just("GET".to_string()), 3 => Just("HEAD".to_string()), 1 => Just("POST".to_string())].boxed()
    } else {
        Just("GET".to_string()).boxed()
    };
    (
        method,
        maybe(p.range, range),
        maybe(p.if_range, if_range_value(ent)),
        maybe(p.cond, tag_list(&ent.etag, 3)),
        maybe(p.cond, tag_list(&ent.etag, 3)),
        maybe(p.cond, date_value(ent.mtime)),
        maybe(p.cond, date_value(ent.mtime)),
        // the request's HTTP version (serve never looks at it)
        prop_oneof![5 => Just(0u8), 1 => 1u8..=4],
        // the order of the header lines in the request
        any::<u32>(),
    )
        .prop_map(|(method, range, if_range, im, inm, ims, ius, version, order)| {
            let mut r = ReqSpec {
                method,
                headers: vec![],
                version,
            };
            if let Some(v) = range {
                r.headers.push(("range".into(), Bs::s(&v)));
            }
            if let Some(v) = if_range {
                r.headers.push(("if-range".into(), v));
            }
            if let Some(v) = im {
                r.headers.push(("if-match".into(), v));
            }
            if let Some(v) = inm {
                r.headers.push(("if-none-match".into(), v));
            }
            if let Some(v) = ims {
                r.headers.push(("if-modified-since".into(), v));
            }
            if let Some(v) = ius {
                r.headers.push(("if-unmodified-since".into(), v));
            }
            // half of the requests in the order above (Range first), half in a shuffled order
            if order & 1 == 1 {
                let n = r.headers.len();
                for i in 0..n {
                    let j = (crate::util::mix(order as u64, i as u64) % n as u64) as usize;
                    r.headers.swap(i, j);
                }
            }
            r
        })
        .boxed()
}

/// Like `case_strategy`, but the entity's modification time is never in the future: for checks
/// that compare several `serve()` calls of the same request (a future time is clamped to "now",
/// so answers to date conditions may legitimately change when the clock ticks between calls).
pub fn stable_case_strategy(lens: BoxedStrategy<u64>, p: Profile) -> BoxedStrategy<(EntitySpec, ReqSpec)> {
    (lens, etag_strategy(), past_mtime_strategy(), entity_headers_strategy(), plan_strategy(), prop_oneof![3 => Just(0u8), 1 => Just(2u8)])
        .prop_map(|(len, etag, mtime, headers, plan, segments)| EntitySpec {
            len,
            etag,
            mtime,
            headers,
            plan,
            faults: vec![],
            tail: vec![],
            segments,
            counting_hint: false,
            unfused_errors: false,
        })
        .prop_flat_map(move |e| {
            let r = request_strategy(&e, p);
            (Just(e), r)
        })
        .boxed()
}

pub fn case_strategy(lens: BoxedStrategy<u64>, p: Profile) -> BoxedStrategy<(EntitySpec, ReqSpec)> {
    entity_strategy(lens)
        .prop_flat_map(move |e| {
            let r = request_strategy(&e, p);
            (Just(e), r)
        })
        .boxed()
}
