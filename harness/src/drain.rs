//! Poll loop over `http_body::Body` with per-step sampling of `size_hint()` / `is_end_stream()`
//! and extra polls after the terminal event. The trace it returns is what the C01 / C07 / C12 /
//! C20 monitors are evaluated on.

use crate::engine::{fail, Check};
use crate::ensure;
use bytes::Buf;
use http_body::Body;
use std::pin::Pin;
use std::sync::atomic::{AtomicUsize, Ordering};
use std::sync::Arc;
use std::task::{Context, Poll, Wake, Waker};

pub struct CountingWaker(pub AtomicUsize);

impl Wake for CountingWaker {
    fn wake(self: Arc<Self>) {
        self.0.fetch_add(1, Ordering::SeqCst);
    }
    fn wake_by_ref(self: &Arc<Self>) {
        self.0.fetch_add(1, Ordering::SeqCst);
    }
}

#[derive(Clone, Debug, PartialEq, Eq)]
pub enum Ev<E> {
    Data(usize),
    Err(E),
    End,
    Pending,
    Panic(String),
}

#[derive(Clone, Debug)]
pub struct Step<E> {
    pub lower: u64,
    pub upper: Option<u64>,
    pub eos: bool,
    pub ev: Ev<E>,
}

#[derive(Clone, Copy, Debug)]
pub struct DrainOpts {
    /// Stop (without a terminal event) after this many data frames.
    pub max_frames: usize,
    /// Keep at most this many body bytes (the count of delivered bytes is always exact).
    pub keep_bytes: usize,
    /// Stop draining after this many bytes have been delivered.
    pub max_bytes: u64,
    /// Polls after the terminal event.
    pub extra_polls: usize,
}

impl Default for DrainOpts {
    fn default() -> Self {
        DrainOpts {
            max_frames: 1 << 20,
            keep_bytes: 1 << 20,
            max_bytes: 1 << 20,
            extra_polls: 2,
        }
    }
}

#[derive(Clone, Debug)]
pub struct Trace<E> {
    /// Every poll up to and including the terminal event.
    pub steps: Vec<Step<E>>,
    /// Polls after the terminal event.
    pub extra: Vec<Step<E>>,
    pub body: Vec<u8>,
    pub delivered: u64,
    pub frames: usize,
    pub empty_frames: usize,
    pub pendings: usize,
    /// True if the drain stopped at a cap rather than at a terminal event.
    pub capped: bool,
    /// A `Pending` was returned without the waker having been woken (would hang a real server).
    pub stalled: bool,
}

impl<E: Clone + std::fmt::Debug> Trace<E> {
    pub fn terminal(&self) -> Option<&Ev<E>> {
        if self.capped || self.stalled {
            return None;
        }
        self.steps.last().map(|s| &s.ev)
    }
    pub fn ended_cleanly(&self) -> bool {
        matches!(self.terminal(), Some(Ev::End))
    }
    pub fn ended_err(&self) -> Option<&E> {
        match self.terminal() {
            Some(Ev::Err(e)) => Some(e),
            _ => None,
        }
    }
    pub fn panicked(&self) -> Option<&str> {
        for s in self.steps.iter().chain(self.extra.iter()) {
            if let Ev::Panic(m) = &s.ev {
                return Some(m);
            }
        }
        None
    }
    pub fn summary(&self) -> String {
        let evs: Vec<String> = self
            .steps
            .iter()
            .chain(self.extra.iter())
            .take(24)
            .map(|s| {
                let e = match &s.ev {
                    Ev::Data(n) => format!("D{n}"),
                    Ev::Err(e) => format!("Err({e:?})"),
                    Ev::End => "End".into(),
                    Ev::Pending => "P".into(),
                    Ev::Panic(m) => format!("PANIC({m})"),
                };
                format!("[{}..{:?}{}]{}", s.lower, s.upper, if s.eos { " eos" } else { "" }, e)
            })
            .collect();
        format!("delivered={} capped={} {}", self.delivered, self.capped, evs.join(" "))
    }
}

pub fn drain<B>(body: B, opts: DrainOpts) -> Trace<B::Error>
where
    B: Body,
    B::Error: Clone + std::fmt::Debug,
{
    let mut body = Box::pin(body);
    let cw = Arc::new(CountingWaker(AtomicUsize::new(0)));
    let waker = Waker::from(cw.clone());
    let mut cx = Context::from_waker(&waker);
    let mut t = Trace {
        steps: Vec::new(),
        extra: Vec::new(),
        body: Vec::new(),
        delivered: 0,
        frames: 0,
        empty_frames: 0,
        pendings: 0,
        capped: false,
        stalled: false,
    };
    let mut terminal_seen = false;
    let mut extra_left = opts.extra_polls;
    loop {
        if terminal_seen {
            if extra_left == 0 {
                break;
            }
            extra_left -= 1;
        } else if t.frames >= opts.max_frames || t.delivered >= opts.max_bytes || t.steps.len() >= opts.max_frames.saturating_mul(2) {
            t.capped = true;
            break;
        }
        let sampled = crate::panics::guard(|| {
            let h = body.size_hint();
            (h.lower(), h.upper(), body.is_end_stream())
        });
        let (lower, upper, eos) = match sampled {
            Ok(x) => x,
            Err(m) => {
                let st = Step {
                    lower: 0,
                    upper: None,
                    eos: false,
                    ev: Ev::Panic(format!("in size_hint/is_end_stream: {m}")),
                };
                if terminal_seen {
                    t.extra.push(st);
                } else {
                    t.steps.push(st);
                }
                break;
            }
        };
        let wakes_before = cw.0.load(Ordering::SeqCst);
        let polled = crate::panics::guard(|| poll_once(body.as_mut(), &mut cx));
        let mut stop = false;
        let ev = match polled {
            Err(m) => {
                stop = true;
                Ev::Panic(m)
            }
            Ok(Poll::Pending) => {
                t.pendings += 1;
                if cw.0.load(Ordering::SeqCst) == wakes_before {
                    t.stalled = true;
                    stop = true;
                }
                Ev::Pending
            }
            Ok(Poll::Ready(None)) => Ev::End,
            Ok(Poll::Ready(Some(Err(e)))) => Ev::Err(e),
            Ok(Poll::Ready(Some(Ok(data)))) => {
                let n = data.len();
                t.delivered += n as u64;
                if !terminal_seen {
                    t.frames += 1;
                    if n == 0 {
                        t.empty_frames += 1;
                    }
                }
                let room = opts.keep_bytes.saturating_sub(t.body.len());
                t.body.extend_from_slice(&data[..n.min(room)]);
                Ev::Data(n)
            }
        };
        let is_terminal = matches!(ev, Ev::End | Ev::Err(_));
        let st = Step { lower, upper, eos, ev };
        if terminal_seen {
            t.extra.push(st);
        } else {
            t.steps.push(st);
            if is_terminal {
                terminal_seen = true;
            }
        }
        if stop {
            break;
        }
    }
    t
}

fn poll_once<B: Body>(body: Pin<&mut B>, cx: &mut Context<'_>) -> Poll<Option<Result<Vec<u8>, B::Error>>> {
    match body.poll_frame(cx) {
        Poll::Pending => Poll::Pending,
        Poll::Ready(None) => Poll::Ready(None),
        Poll::Ready(Some(Err(e))) => Poll::Ready(Some(Err(e))),
        Poll::Ready(Some(Ok(frame))) => match frame.into_data() {
            Ok(mut d) => {
                let mut v = Vec::with_capacity(d.remaining());
                while d.has_remaining() {
                    let c = d.chunk();
                    let n = c.len();
                    v.extend_from_slice(c);
                    d.advance(n);
                }
                Poll::Ready(Some(Ok(v)))
            }
            Err(_) => Poll::Ready(Some(Ok(Vec::new()))), // trailers: the crate never makes them.
        },
    }
}

// ------------------------------------------------------------------------------------------------
// Monitors evaluated on traces.

/// C20: after the terminal event: no panic, no data.
pub fn check_terminated_stays<E: Clone + std::fmt::Debug>(t: &Trace<E>, what: &str) -> Check {
    for (i, s) in t.extra.iter().enumerate() {
        match &s.ev {
            Ev::Panic(m) => {
                return fail(
                    format!("repoll-panic:{what}:{}", crate::panics::panic_sig(m)),
                    format!("poll #{} after the terminal event of a {what} body panicked: {m}; trace: {}", i + 1, t.summary()),
                )
            }
            Ev::Data(n) if *n > 0 => {
                return fail(
                    format!("repoll-data:{what}"),
                    format!("poll #{} after the terminal event of a {what} body yielded {n} data bytes; trace: {}", i + 1, t.summary()),
                )
            }
            _ => {}
        }
    }
    Ok(())
}

/// C12 (second half): once `is_end_stream()` was true, no later poll yields data or an error.
pub fn check_eos_truthful<E: Clone + std::fmt::Debug>(t: &Trace<E>, what: &str) -> Check {
    let mut eos_at: Option<usize> = None;
    for (i, s) in t.steps.iter().chain(t.extra.iter()).enumerate() {
        // `s.eos` was sampled immediately before poll i: that poll itself is already bound by it.
        if s.eos && eos_at.is_none() {
            eos_at = Some(i);
        }
        if let Some(j) = eos_at {
            match &s.ev {
                Ev::Data(n) if *n > 0 => {
                    return fail(
                        format!("eos-then-data:{what}"),
                        format!("is_end_stream() was true before poll {j} but poll {i} yielded {n} bytes; trace: {}", t.summary()),
                    )
                }
                Ev::Err(e) => {
                    return fail(
                        format!("eos-then-error:{what}"),
                        format!("is_end_stream() was true before poll {j} but poll {i} yielded error {e:?}; trace: {}", t.summary()),
                    )
                }
                _ => {}
            }
        }
    }
    Ok(())
}

/// C12 (first half), retrospective: for a trace that ended cleanly with `T` bytes in total, at
/// each step the hint must bracket the bytes still to come; `exact` demands lower == upper.
pub fn check_hints<E: Clone + std::fmt::Debug>(t: &Trace<E>, exact: bool, what: &str) -> Check {
    if !t.ended_cleanly() {
        return Ok(());
    }
    let total = t.delivered_before_terminal();
    let mut d = 0u64;
    for (i, s) in t.steps.iter().enumerate() {
        let left = total - d;
        ensure!(
            s.lower <= left,
            format!("hint-lower-too-high:{what}"),
            "step {i}: size_hint lower {} exceeds the {left} bytes still to come; trace: {}",
            s.lower,
            t.summary()
        );
        if let Some(u) = s.upper {
            ensure!(
                u >= left,
                format!("hint-upper-too-low:{what}"),
                "step {i}: size_hint upper {u} is below the {left} bytes still to come; trace: {}",
                t.summary()
            );
        }
        if exact {
            ensure!(
                s.upper == Some(s.lower),
                format!("hint-not-exact:{what}"),
                "step {i}: size_hint {}..{:?} is not exact; trace: {}",
                s.lower,
                s.upper,
                t.summary()
            );
        }
        if let Ev::Data(n) = s.ev {
            d += n as u64;
        }
    }
    Ok(())
}

/// C12 (first half), after an error: a body that, polled again after its error, comes to a clean
/// end (`None`) has by then delivered nothing more (C20), so every hint sampled between the error
/// and that end must have a lower bound of 0 - it "will still deliver" nothing "if it ends cleanly".
/// Says nothing when the polls after the error yield errors only.
pub fn check_hints_after_error<E: Clone + std::fmt::Debug>(t: &Trace<E>, what: &str) -> Check {
    if t.ended_err().is_none() {
        return Ok(());
    }
    let Some(k) = t.extra.iter().position(|s| matches!(s.ev, Ev::End)) else { return Ok(()) };
    if t.extra[..k].iter().any(|s| !matches!(s.ev, Ev::Pending | Ev::Data(0))) {
        return Ok(());
    }
    for (i, s) in t.extra[..=k].iter().enumerate() {
        ensure!(
            s.lower == 0,
            format!("hint-after-error:{what}"),
            "poll {} after the error: size_hint lower {} although the body then ends cleanly without delivering anything more; trace: {}",
            i + 1,
            s.lower,
            t.summary()
        );
    }
    Ok(())
}

impl<E: Clone + std::fmt::Debug> Trace<E> {
    pub fn delivered_before_terminal(&self) -> u64 {
        self.steps
            .iter()
            .map(|s| if let Ev::Data(n) = s.ev { n as u64 } else { 0 })
            .sum()
    }
    /// For capped traces of exact-hint bodies: each step's exact hint must equal announced - delivered.
    pub fn check_exact_against(&self, announced: u64, what: &str) -> Check {
        let mut d = 0u64;
        for (i, s) in self.steps.iter().enumerate() {
            if matches!(s.ev, Ev::Panic(_)) {
                break;
            }
            ensure!(
                s.upper == Some(s.lower) && s.lower == announced.saturating_sub(d),
                format!("hint-not-remaining:{what}"),
                "step {i}: size_hint {}..{:?} but announced {announced} and delivered {d}; trace: {}",
                s.lower,
                s.upper,
                self.summary()
            );
            if let Ev::Data(n) = s.ev {
                d += n as u64;
            }
        }
        Ok(())
    }
}
