//! The harness `Entity`: position-hashed content of any length up to 2^64-1, scripted chunking
//! (chunk plans), injected faults, and a log of every `get_range` call.

use crate::util::{content, Bs};
use bytes::Bytes;
use futures_core::Stream;
use http::header::{HeaderMap, HeaderName, HeaderValue};
use serde::{Deserialize, Serialize};
use std::ops::Range;
use std::pin::Pin;
use std::sync::{Arc, Mutex};
use std::task::{Context, Poll};
use std::time::{Duration, SystemTime, UNIX_EPOCH};

pub type BoxError = Box<dyn std::error::Error + Send + Sync>;

/// The entity's `Data` type: a non-contiguous buffer of one or more segments (the crate
/// documents that `Data` "may be something more exotic" than `Bytes`; only `Buf` is required).
#[derive(Clone, Debug, Default)]
pub struct SegBytes {
    segs: std::collections::VecDeque<Bytes>,
}

impl SegBytes {
    pub fn from_segments(v: Vec<Vec<u8>>) -> SegBytes {
        SegBytes {
            segs: v.into_iter().filter(|s| !s.is_empty()).map(Bytes::from).collect(),
        }
    }
    pub fn segments(&self) -> usize {
        self.segs.len()
    }
}

impl bytes::Buf for SegBytes {
    fn remaining(&self) -> usize {
        self.segs.iter().map(|s| s.len()).sum()
    }
    fn chunk(&self) -> &[u8] {
        self.segs.front().map(|s| &s[..]).unwrap_or(&[])
    }
    fn advance(&mut self, mut n: usize) {
        while n > 0 {
            let Some(f) = self.segs.front_mut() else { panic!("advance past the end of SegBytes") };
            if n < f.len() {
                bytes::Buf::advance(f, n);
                return;
            }
            n -= f.len();
            self.segs.pop_front();
        }
    }
}

impl From<Vec<u8>> for SegBytes {
    fn from(v: Vec<u8>) -> Self {
        SegBytes::from_segments(vec![v])
    }
}

impl From<&'static [u8]> for SegBytes {
    fn from(v: &'static [u8]) -> Self {
        SegBytes {
            segs: if v.is_empty() { Default::default() } else { [Bytes::from_static(v)].into_iter().collect() },
        }
    }
}

#[derive(Clone, Debug, PartialEq, Eq)]
pub enum HarnessError {
    /// An error injected by the harness entity (id identifies the fault).
    Injected(u32),
    /// An error made by the crate (converted from a `BoxError`).
    Crate(String),
}

impl From<BoxError> for HarnessError {
    fn from(e: BoxError) -> Self {
        HarnessError::Crate(e.to_string())
    }
}

#[derive(Clone, Copy, Debug, PartialEq, Eq, Serialize, Deserialize)]
pub enum Mtime {
    None,
    /// Seconds and nanoseconds after the epoch.
    At(u64, u32),
    /// This many seconds after "now" at entity construction (plus nanos).
    Future(u64, u32),
    /// Seconds and nanoseconds *before* the epoch (files do carry such times).
    Before(u64, u32),
}

#[derive(Clone, Copy, Debug, PartialEq, Eq, Serialize, Deserialize)]
pub enum PStep {
    Chunk(u32),
    Empty,
    Pending,
    Rest,
}

#[derive(Clone, Copy, Debug, PartialEq, Eq, Serialize, Deserialize)]
pub enum FaultKind {
    EndEarly,
    Error,
    ExtraByte,
    ExtraChunk,
    /// An error after the last requested byte has been delivered.
    ErrorAfterEnd,
}

#[derive(Clone, Copy, Debug, PartialEq, Eq, Serialize, Deserialize)]
pub struct Fault {
    /// Which `get_range` call (0-based) is faulty.
    pub call: u32,
    /// Index of the data chunk before which (EndEarly/Error) or in which (ExtraByte) the fault
    /// happens; ignored for ExtraChunk (always after the last chunk).
    pub chunk: u32,
    pub kind: FaultKind,
    /// number of surplus bytes for ExtraByte (0 = 1)
    #[serde(default)]
    pub extra: u32,
}

#[derive(Clone, Debug, Serialize, Deserialize)]
pub struct EntitySpec {
    pub len: u64,
    pub etag: Option<Bs>,
    pub mtime: Mtime,
    pub headers: Vec<(String, Bs)>,
    pub plan: Vec<PStep>,
    #[serde(default)]
    pub faults: Vec<Fault>,
    /// Steps (Empty / Pending only) every range stream performs after its last data byte and
    /// before its end (or its after-the-end fault).
    #[serde(default)]
    pub tail: Vec<PStep>,
    /// Every data chunk is handed over as up to this many segments (0/1 = contiguous). Surplus
    /// bytes of an ExtraByte fault always sit in a segment of their own when this is >= 2.
    #[serde(default)]
    pub segments: u8,
    /// The range streams implement `Stream::size_hint` by counting the data chunks (and tail
    /// steps) still to come, ignoring any injected after-the-end item - what a hand-written
    /// buffered stream typically reports. Default: the trait's default hint (0, None).
    #[serde(default)]
    pub counting_hint: bool,
    /// After an injected error the stream keeps failing on every further poll instead of ending
    /// (like `ChunkedReadFile`, which retries the read); still never yields data again.
    #[serde(default)]
    pub unfused_errors: bool,
}

impl EntitySpec {
    pub fn simple(len: u64) -> EntitySpec {
        EntitySpec {
            len,
            etag: None,
            mtime: Mtime::None,
            headers: vec![],
            plan: vec![PStep::Rest],
            faults: vec![],
            tail: vec![],
            segments: 0,
            counting_hint: false,
            unfused_errors: false,
        }
    }
    pub fn etag_is_strong(&self) -> bool {
        matches!(&self.etag, Some(t) if !t.0.starts_with(b"W/"))
    }
}

#[derive(Default, Debug, Clone)]
pub struct Log {
    pub ranges: Vec<(u64, u64)>,
    /// (call, kind) of faults the consumer actually reached.
    pub faults_reached: Vec<Fault>,
    pub polls: u64,
    pub polls_after_done: u64,
}

pub struct ModelEntity {
    pub spec: Arc<EntitySpec>,
    pub mtime: Option<SystemTime>,
    pub log: Arc<Mutex<Log>>,
}

impl ModelEntity {
    pub fn new(spec: &EntitySpec) -> (ModelEntity, Arc<Mutex<Log>>) {
        let log = Arc::new(Mutex::new(Log::default()));
        let mtime = match spec.mtime {
            Mtime::None => None,
            Mtime::At(s, n) => Some(UNIX_EPOCH + Duration::new(s, n)),
            Mtime::Before(s, n) => Some(UNIX_EPOCH - Duration::new(s, n)),
            Mtime::Future(s, n) => {
                let now = SystemTime::now().duration_since(UNIX_EPOCH).unwrap();
                Some(UNIX_EPOCH + Duration::new(now.as_secs() + s, n))
            }
        };
        (
            ModelEntity {
                spec: Arc::new(spec.clone()),
                mtime,
                log: log.clone(),
            },
            log,
        )
    }
}

pub const MAX_CHUNK: u64 = 65536;

struct PlanStream {
    spec: Arc<EntitySpec>,
    log: Arc<Mutex<Log>>,
    pos: u64,
    end: u64,
    idx: usize,
    data_chunks: u32,
    fault: Option<Fault>,
    extra_chunk_done: bool,
    tail_idx: usize,
    done: bool,
    failed_with: Option<u32>,
}

impl Stream for PlanStream {
    type Item = Result<SegBytes, HarnessError>;

    fn size_hint(&self) -> (usize, Option<usize>) {
        if self.spec.counting_hint {
            self.counted_hint()
        } else {
            (0, None)
        }
    }

    fn poll_next(self: Pin<&mut Self>, cx: &mut Context<'_>) -> Poll<Option<Self::Item>> {
        let this = Pin::into_inner(self);
        {
            let mut l = this.log.lock().unwrap();
            l.polls += 1;
            if this.done {
                l.polls_after_done += 1;
            }
        }
        if let Some(id) = this.failed_with {
            return Poll::Ready(Some(Err(HarnessError::Injected(id)))); // unfused: keeps failing
        }
        if this.done {
            return Poll::Ready(None); // fused, as C20's proviso requires.
        }
        let has_data_step = this
            .spec
            .plan
            .iter()
            .any(|s| matches!(s, PStep::Chunk(_) | PStep::Rest));
        loop {
            if let Some(f) = this.fault {
                if f.chunk == this.data_chunks && this.pos < this.end {
                    match f.kind {
                        FaultKind::EndEarly => {
                            this.done = true;
                            this.log.lock().unwrap().faults_reached.push(f);
                            return Poll::Ready(None);
                        }
                        FaultKind::Error => {
                            this.done = true;
                            this.log.lock().unwrap().faults_reached.push(f);
                            if this.spec.unfused_errors {
                                this.failed_with = Some(f.call * 1000 + f.chunk);
                            }
                            return Poll::Ready(Some(Err(HarnessError::Injected(f.call * 1000 + f.chunk))));
                        }
                        _ => {}
                    }
                }
            }
            if this.pos == this.end {
                if this.tail_idx < this.spec.tail.len() && !this.extra_chunk_done {
                    let st = this.spec.tail[this.tail_idx];
                    this.tail_idx += 1;
                    match st {
                        PStep::Pending => {
                            cx.waker().wake_by_ref();
                            return Poll::Pending;
                        }
                        _ => return Poll::Ready(Some(Ok(SegBytes::default()))),
                    }
                }
                if let Some(f) = this.fault {
                    if f.kind == FaultKind::ErrorAfterEnd {
                        this.done = true;
                        this.log.lock().unwrap().faults_reached.push(f);
                        return Poll::Ready(Some(Err(HarnessError::Injected(f.call * 1000 + 999))));
                    }
                    if f.kind == FaultKind::ExtraChunk && !this.extra_chunk_done {
                        this.extra_chunk_done = true;
                        this.log.lock().unwrap().faults_reached.push(f);
                        return Poll::Ready(Some(Ok(SegBytes::from(&[0xEEu8, 0xEE, 0xEE][..]))));
                    }
                }
                this.done = true;
                return Poll::Ready(None);
            }
            let step = if has_data_step {
                let s = this.spec.plan[this.idx % this.spec.plan.len()];
                this.idx += 1;
                s
            } else {
                PStep::Rest
            };
            let left = this.end - this.pos;
            let n = match step {
                PStep::Pending => {
                    cx.waker().wake_by_ref();
                    return Poll::Pending;
                }
                PStep::Empty => return Poll::Ready(Some(Ok(SegBytes::default()))),
                PStep::Chunk(n) => (n.max(1) as u64).min(left).min(MAX_CHUNK),
                PStep::Rest => left.min(MAX_CHUNK),
            };
            let data = content(this.pos, n as usize);
            // Split into segments at positions derived from the stream position.
            let k = this.spec.segments.max(1) as usize;
            let mut segs: Vec<Vec<u8>> = Vec::new();
            if k <= 1 || data.len() < 2 {
                segs.push(data);
            } else {
                let mut rest = &data[..];
                let mut h = crate::util::splitmix64(this.pos ^ 0x5e65);
                for i in 0..k {
                    if i == k - 1 || rest.len() <= 1 {
                        segs.push(rest.to_vec());
                        break;
                    }
                    let cut = 1 + (h as usize % (rest.len() - 1));
                    h = crate::util::splitmix64(h);
                    segs.push(rest[..cut].to_vec());
                    rest = &rest[cut..];
                }
            }
            if let Some(f) = this.fault {
                if f.kind == FaultKind::ExtraByte && f.chunk == this.data_chunks {
                    let surplus = vec![0xEEu8; f.extra.max(1) as usize];
                    if k >= 2 {
                        segs.push(surplus);
                    } else {
                        segs.last_mut().unwrap().extend_from_slice(&surplus);
                    }
                    this.log.lock().unwrap().faults_reached.push(f);
                }
            }
            this.pos += n;
            this.data_chunks += 1;
            return Poll::Ready(Some(Ok(SegBytes::from_segments(segs))));
        }
    }
}

impl PlanStream {
    fn counted_hint(&self) -> (usize, Option<usize>) {
        if self.done {
            return (0, Some(0));
        }
        // data chunks still to come under the plan (fault items are NOT counted) + tail steps
        let chunks = plan_chunk_sizes_from(&self.spec.plan, self.idx, self.end - self.pos, 1 << 16).len();
        let tails = self.spec.tail.len() - self.tail_idx.min(self.spec.tail.len());
        // Pending / Empty plan steps in between are items too only for Empty; keep the hint a
        // lower bound of 0 and an upper bound that ignores injected items.
        let empties = if chunks > 0 { self.spec.plan.iter().filter(|s| matches!(s, PStep::Empty)).count() * (chunks + 1) } else { 0 };
        (0, Some(chunks + tails + empties))
    }
}

impl http_serve::Entity for ModelEntity {
    type Error = HarnessError;
    type Data = SegBytes;

    fn len(&self) -> u64 {
        self.spec.len
    }

    fn get_range(
        &self,
        range: Range<u64>,
    ) -> Pin<Box<dyn Stream<Item = Result<Self::Data, Self::Error>> + Send + Sync>> {
        let call = {
            let mut l = self.log.lock().unwrap();
            l.ranges.push((range.start, range.end));
            (l.ranges.len() - 1) as u32
        };
        let fault = self.spec.faults.iter().copied().find(|f| f.call == call);
        Box::pin(PlanStream {
            spec: self.spec.clone(),
            log: self.log.clone(),
            pos: range.start,
            end: range.end,
            idx: 0,
            data_chunks: 0,
            fault,
            extra_chunk_done: false,
            tail_idx: 0,
            done: false,
            failed_with: None,
        })
    }

    fn add_headers(&self, h: &mut HeaderMap) {
        for (k, v) in &self.spec.headers {
            if let (Ok(k), Ok(v)) = (HeaderName::from_bytes(k.as_bytes()), HeaderValue::from_bytes(&v.0)) {
                h.append(k, v);
            }
        }
    }

    fn etag(&self) -> Option<HeaderValue> {
        self.spec.etag.as_ref().and_then(|t| HeaderValue::from_bytes(&t.0).ok())
    }

    fn last_modified(&self) -> Option<SystemTime> {
        self.mtime
    }
}

/// Number of data chunks a fault-free stream for a range of `n` bytes produces under `plan`.
pub fn plan_chunk_sizes(plan: &[PStep], n: u64, cap: usize) -> Vec<u64> {
    plan_chunk_sizes_from(plan, 0, n, cap)
}

pub fn plan_chunk_sizes_from(plan: &[PStep], start_idx: usize, n: u64, cap: usize) -> Vec<u64> {
    let mut out = Vec::new();
    let has_data = plan.iter().any(|s| matches!(s, PStep::Chunk(_) | PStep::Rest));
    let mut left = n;
    let mut idx = start_idx;
    while left > 0 && out.len() < cap {
        let step = if has_data { plan[idx % plan.len()] } else { PStep::Rest };
        idx += 1;
        let k = match step {
            PStep::Pending | PStep::Empty => continue,
            PStep::Chunk(c) => (c.max(1) as u64).min(left).min(MAX_CHUNK),
            PStep::Rest => left.min(MAX_CHUNK),
        };
        out.push(k);
        left -= k;
    }
    out
}

// ------------------------------------------------------------------------------------------------

#[derive(Clone, Debug, Serialize, Deserialize, PartialEq, Eq)]
pub struct ReqSpec {
    pub method: String,
    pub headers: Vec<(String, Bs)>,
    /// 0 the `http` crate's default (HTTP/1.1), 1 HTTP/1.0, 2 HTTP/0.9, 3 HTTP/2, 4 HTTP/3
    #[serde(default)]
    pub version: u8,
}

impl ReqSpec {
    pub fn get() -> ReqSpec {
        ReqSpec {
            method: "GET".into(),
            headers: vec![],
            version: 0,
        }
    }
    pub fn with(mut self, name: &str, v: impl AsRef<[u8]>) -> ReqSpec {
        self.headers.push((name.to_string(), Bs(v.as_ref().to_vec())));
        self
    }
    pub fn method(mut self, m: &str) -> ReqSpec {
        self.method = m.to_string();
        self
    }
    /// First value of a header (what `HeaderMap::get` returns).
    pub fn first(&self, name: &str) -> Option<&[u8]> {
        self.headers
            .iter()
            .find(|(k, _)| k.eq_ignore_ascii_case(name))
            .map(|(_, v)| &v.0[..])
    }
    pub fn has(&self, name: &str) -> bool {
        self.first(name).is_some()
    }
    pub fn without(&self, names: &[&str]) -> ReqSpec {
        ReqSpec {
            method: self.method.clone(),
            headers: self
                .headers
                .iter()
                .filter(|(k, _)| !names.iter().any(|n| k.eq_ignore_ascii_case(n)))
                .cloned()
                .collect(),
            version: self.version,
        }
    }
    pub fn build(&self) -> Option<http::Request<()>> {
        let m = http::Method::from_bytes(self.method.as_bytes()).ok()?;
        let mut b = http::Request::builder().method(m).uri("/").version(match self.version {
            1 => http::Version::HTTP_10,
            2 => http::Version::HTTP_09,
            3 => http::Version::HTTP_2,
            4 => http::Version::HTTP_3,
            _ => http::Version::HTTP_11,
        });
        for (k, v) in &self.headers {
            let k = HeaderName::from_bytes(k.as_bytes()).ok()?;
            let v = HeaderValue::from_bytes(&v.0).ok()?;
            b = b.header(k, v);
        }
        b.body(()).ok()
    }
}

/// A response's status and headers, detached from the body.
#[derive(Clone, Debug, Serialize, PartialEq, Eq)]
pub struct RespHead {
    pub status: u16,
    pub headers: Vec<(String, Bs)>,
}

impl RespHead {
    pub fn of<B>(r: &http::Response<B>) -> RespHead {
        RespHead {
            status: r.status().as_u16(),
            headers: r
                .headers()
                .iter()
                .map(|(k, v)| (k.as_str().to_string(), Bs(v.as_bytes().to_vec())))
                .collect(),
        }
    }
    pub fn all(&self, name: &str) -> Vec<&[u8]> {
        self.headers
            .iter()
            .filter(|(k, _)| k.eq_ignore_ascii_case(name))
            .map(|(_, v)| &v.0[..])
            .collect()
    }
    /// The single value of a header; `Err` if it occurs more than once.
    pub fn one(&self, name: &str) -> Result<Option<&[u8]>, String> {
        let a = self.all(name);
        match a.len() {
            0 => Ok(None),
            1 => Ok(Some(a[0])),
            n => Err(format!("header {name} occurs {n} times")),
        }
    }
    pub fn one_str(&self, name: &str) -> Result<Option<String>, String> {
        Ok(self.one(name)?.map(|v| String::from_utf8_lossy(v).into_owned()))
    }
    pub fn content_length(&self) -> Result<Option<u64>, String> {
        match self.one("content-length")? {
            None => Ok(None),
            Some(v) => {
                let s = std::str::from_utf8(v).map_err(|_| "content-length not ascii".to_string())?;
                if s.is_empty() || !s.bytes().all(|b| b.is_ascii_digit()) {
                    return Err(format!("content-length {s:?} is not 1*DIGIT"));
                }
                s.parse::<u64>().map(Some).map_err(|_| format!("content-length {s:?} does not fit u64"))
            }
        }
    }
    /// Headers as a sorted multiset, excluding the given names.
    pub fn multiset_without(&self, names: &[&str]) -> Vec<(String, Bs)> {
        let mut v: Vec<(String, Bs)> = self
            .headers
            .iter()
            .filter(|(k, _)| !names.iter().any(|n| k.eq_ignore_ascii_case(n)))
            .map(|(k, v)| (k.to_ascii_lowercase(), v.clone()))
            .collect();
        v.sort();
        v
    }
}
