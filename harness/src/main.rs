fn main() {}
