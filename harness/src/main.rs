use serde_json::{json, Value};
use std::time::Instant;
use vp::engine::*;

#[global_allocator]
static ALLOC: vp::alloc::Counting = vp::alloc::Counting;

/// Properties whose cases are also run under the build without debug assertions.
const UNCHECKED_TOO: &[&str] = &["C01", "C02", "C03", "C06", "C07", "C08", "C12", "C13", "C15", "C20"];

fn unchecked_binary() -> Option<std::path::PathBuf> {
    let exe = std::env::current_exe().ok()?;
    let p = exe.parent()?.parent()?.join("unchecked").join("vp");
    p.exists().then_some(p)
}

fn usage() -> ! {
    eprintln!("usage: vp <PROPERTY-ID> quick|thorough | vp <PROPERTY-ID> --replay <file>");
    std::process::exit(2)
}

fn main() {
    vp::panics::install_hook();
    vp::alloc::mark_installed();
    let args: Vec<String> = std::env::args().skip(1).collect();
    if args.len() < 2 {
        usage();
    }
    let id = args[0].to_uppercase();
    let reg = vp::props::registry();
    let Some(def) = reg.iter().find(|d| d.meta.id == id) else {
        eprintln!("INCONCLUSIVE: no check for property {id}");
        std::process::exit(2)
    };
    install_abort_handler(&id);
    let seed: u64 = std::env::var("VERIF_SEED").ok().and_then(|s| s.trim().parse().ok()).unwrap_or(0);
    let known = load_known();

    // Watchdog: no progress at all for a long time means a hang in harness or code; inconclusive.
    let wd_id = id.clone();
    std::thread::spawn(move || {
        let mut last = PROGRESS.load(std::sync::atomic::Ordering::Relaxed);
        let mut idle = 0;
        loop {
            std::thread::sleep(std::time::Duration::from_secs(5));
            let now = PROGRESS.load(std::sync::atomic::Ordering::Relaxed);
            if now == last {
                idle += 5;
            } else {
                idle = 0;
                last = now;
            }
            if idle >= 180 {
                // Failures found before the hang are violations all the same (unshrunk cases).
                let pending: Vec<Violation> = UNSHRUNK.lock().map(|u| u.iter().map(|v| Violation { phase: v.phase.clone(), sig: v.sig.clone(), msg: v.msg.clone(), case: v.case.clone() }).collect()).unwrap_or_default();
                if !pending.is_empty() {
                    for v in &pending {
                        let path = write_replay(&wd_id, v);
                        println!("--- {} [{}] {} (reported by the watchdog after {idle} s without progress; case not shrunk)", v.phase, v.sig, v.msg);
                        println!("VIOLATION property={wd_id} replay={path}");
                    }
                    std::process::exit(1);
                }
                println!("INCONCLUSIVE: watchdog: no progress for {idle} s");
                std::process::exit(2);
            }
        }
    });

    if args[1] == "--replay" {
        let Some(path) = args.get(2) else { usage() };
        let cx = Cx { id: id.clone(), tier: Tier::Quick, seed, known };
        let text = std::fs::read_to_string(path).unwrap_or_else(|e| {
            eprintln!("INCONCLUSIVE: cannot read {path}: {e}");
            std::process::exit(2)
        });
        let v: Value = serde_json::from_str(&text).unwrap_or_else(|e| {
            eprintln!("INCONCLUSIVE: cannot parse {path}: {e}");
            std::process::exit(2)
        });
        let phase = v["phase"].as_str().unwrap_or("").to_string();
        if v["build"].as_str() == Some("unchecked") && build_tag() == "checked" {
            if let Some(u) = unchecked_binary() {
                let st = std::process::Command::new(u).args(&args).status();
                std::process::exit(st.ok().and_then(|s| s.code()).unwrap_or(2));
            }
        }
        let mut acc = Acc::new();
        let _guard = CaseGuard::enter(&v["case"], &phase);
        let r = if phase.starts_with("fuzz") { vp::fuzzrun::replay(&cx, &v["case"], &mut acc) } else { (def.replay)(&cx, &phase, &v["case"], &mut acc) };
        match r {
            Ok(()) => {
                println!("replay of {path}: property {id} held on this case");
                std::process::exit(0)
            }
            Err(f) if f.sig == "replay-decode" => {
                eprintln!("INCONCLUSIVE: cannot decode case: {}", f.msg);
                std::process::exit(2)
            }
            Err(f) => {
                println!("{}", f.msg);
                if cx.is_known(&f.sig) {
                    println!("KNOWN-FINDING: property={id} sig={}", f.sig);
                    std::process::exit(0)
                }
                println!("VIOLATION property={id} replay={path}");
                std::process::exit(1)
            }
        }
    }

    let tier = match args[1].as_str() {
        "quick" => Tier::Quick,
        "thorough" => Tier::Thorough,
        _ => usage(),
    };
    let cx = Cx { id: id.clone(), tier, seed, known };
    let start = Instant::now();
    let mut acc = Acc::new();

    // Committed regression corpus first.
    let corpus_dir = format!("{VERIF_DIR}/corpus/{id}");
    let mut corpus_n = 0u64;
    if let Ok(rd) = std::fs::read_dir(&corpus_dir) {
        let mut files: Vec<_> = rd.filter_map(|e| e.ok()).map(|e| e.path()).filter(|p| p.extension().map_or(false, |x| x == "json")).collect();
        files.sort();
        for p in files {
            let Ok(text) = std::fs::read_to_string(&p) else { continue };
            let Ok(v) = serde_json::from_str::<Value>(&text) else {
                acc.internal_errors.push(format!("corpus file {} is not JSON", p.display()));
                continue;
            };
            let phase = v["phase"].as_str().unwrap_or("").to_string();
            let case = v["case"].clone();
            corpus_n += 1;
            let mut sub = Acc::new();
            let ok = sub.run_case(&cx, &format!("corpus:{phase}"), &case, |a| if phase.starts_with("fuzz") { vp::fuzzrun::replay(&cx, &case, a) } else { (def.replay)(&cx, &phase, &case, a) });
            if !ok {
                // keep the original phase so that the replay file decodes.
                for v in &mut sub.violations {
                    v.phase = phase.clone();
                }
            }
            acc.merge(sub);
        }
    }
    acc.phase_info("corpus", corpus_n, false, "committed regression inputs replayed");

    acc.merge((def.run)(&cx));
    let (facc, fuzz_stats) = vp::fuzzrun::run(&cx);
    acc.merge(facc);
    // The same cases under the build without debug assertions / overflow checks.
    let mut child_exit = 0;
    let mut child_lines: Vec<String> = Vec::new();
    let mut unchecked_info = json!(null);
    if UNCHECKED_TOO.contains(&id.as_str()) && build_tag() == "checked" && std::env::var_os("VP_CHILD").is_none() {
        match unchecked_binary() {
            None => acc.internal_errors.push("the unchecked build of the harness (target/unchecked/vp) is missing: run ./check or the setup command".into()),
            Some(u) => {
                let tmp = format!("{}/child-evidence-{}", std::env::temp_dir().display(), std::process::id());
                // The child has its own watchdog; this process keeps its progress counter moving while
                // it waits, and the child dies with this process (no orphan keeps the cores busy).
                let out = (|| -> std::io::Result<std::process::Output> {
                    use std::os::unix::process::CommandExt;
                    let mut cmd = std::process::Command::new(u);
                    cmd.arg(&id).arg(tier.name()).env("VP_CHILD", "1").env("VP_NO_FUZZ", "1").env("VP_EVIDENCE_DIR", &tmp);
                    cmd.stdout(std::process::Stdio::piped()).stderr(std::process::Stdio::null());
                    unsafe {
                        cmd.pre_exec(|| {
                            libc::prctl(libc::PR_SET_PDEATHSIG, libc::SIGKILL);
                            Ok(())
                        });
                    }
                    let mut child = cmd.spawn()?;
                    let mut so = child.stdout.take().expect("piped stdout");
                    let reader = std::thread::spawn(move || {
                        let mut v = Vec::new();
                        let _ = std::io::Read::read_to_end(&mut so, &mut v);
                        v
                    });
                    let status = loop {
                        if let Some(st) = child.try_wait()? {
                            break st;
                        }
                        std::thread::sleep(std::time::Duration::from_millis(200));
                        PROGRESS.fetch_add(1, std::sync::atomic::Ordering::Relaxed);
                    };
                    Ok(std::process::Output { status, stdout: reader.join().unwrap_or_default(), stderr: Vec::new() })
                })();
                match out {
                    Err(e) => acc.internal_errors.push(format!("cannot run the unchecked build: {e}")),
                    Ok(o) => {
                        child_exit = o.status.code().unwrap_or(2);
                        for l in String::from_utf8_lossy(&o.stdout).lines() {
                            if l.starts_with("--- ") || l.starts_with("VIOLATION") || l.starts_with("INCONCLUSIVE") {
                                child_lines.push(l.to_string());
                            }
                        }
                        if let Ok(t) = std::fs::read_to_string(format!("{tmp}/{id}.json")) {
                            if let Ok(ev) = serde_json::from_str::<Value>(&t) {
                                let n = ev["coverage"]["evaluations"].as_u64().unwrap_or(0);
                                unchecked_info = json!({"evaluations": n, "distinct_nontrivial": ev["coverage"]["distinct_nontrivial"], "violations": ev["violations"], "wall_s": ev["wall_s"], "exit": child_exit});
                                acc.phase_info("unchecked-build", n, false, "all phases above repeated with http-serve and harness built without debug assertions and overflow checks (release semantics)");
                                acc.evals += n;
                            }
                        }
                        let _ = std::fs::remove_dir_all(&tmp);
                    }
                }
            }
        }
    }
    let wall = start.elapsed().as_secs_f64();

    let health = (def.health)(&acc);
    let extra = json!({"corpus_cases": corpus_n, "internal_errors": acc.internal_errors, "health": health, "fuzz": fuzz_stats, "build": build_tag(), "unchecked_build": unchecked_info});
    write_evidence(&cx, def.meta, &acc, wall, extra);

    println!(
        "{id} {}: seed={seed} evaluations={} distinct_nontrivial={} violations={} known_hits={} wall={:.1}s",
        tier.name(),
        acc.evals,
        acc.distinct.len(),
        acc.violations.len(),
        acc.known_hits.values().sum::<u64>(),
        wall
    );
    for k in &cx.known {
        if k.property == id {
            let n = acc.known_hits.get(&k.sig).copied().unwrap_or(0);
            println!("KNOWN-FINDING: property={id} sig={} hits={n} {}", k.sig, k.text);
        }
    }
    for l in &child_lines {
        if l.starts_with("INCONCLUSIVE") {
            println!("{l} [unchecked build]");
        } else {
            println!("{l}");
        }
    }
    if !acc.violations.is_empty() || child_exit == 1 {
        for v in &acc.violations {
            let path = write_replay(&id, v);
            println!("--- {} [{}] {}", v.phase, v.sig, v.msg);
            println!("VIOLATION property={id} replay={path}");
        }
        std::process::exit(1);
    }
    if !acc.internal_errors.is_empty() || child_exit >= 2 {
        for e in &acc.internal_errors {
            println!("INCONCLUSIVE: {e}");
        }
        std::process::exit(2);
    }
    if !health.is_empty() {
        for h in &health {
            println!("INCONCLUSIVE: generator health: {h}");
        }
        std::process::exit(2);
    }
    std::process::exit(0);
}
