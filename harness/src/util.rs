//! Small shared helpers: hashing, position-dependent content, readable byte strings.

use serde::{Deserialize, Deserializer, Serialize, Serializer};

pub fn splitmix64(mut x: u64) -> u64 {
    x = x.wrapping_add(0x9E37_79B9_7F4A_7C15);
    let mut z = x;
    z = (z ^ (z >> 30)).wrapping_mul(0xBF58_476D_1CE4_E5B9);
    z = (z ^ (z >> 27)).wrapping_mul(0x94D0_49BB_1331_11EB);
    z ^ (z >> 31)
}

pub fn mix(a: u64, b: u64) -> u64 {
    splitmix64(a ^ splitmix64(b).rotate_left(17))
}

/// Entity content: a pure function of the byte position with no short period.
#[inline]
pub fn content_byte(pos: u64) -> u8 {
    (splitmix64(pos) >> 24) as u8
}

pub fn content(start: u64, n: usize) -> Vec<u8> {
    (0..n as u64).map(|i| content_byte(start.wrapping_add(i))).collect()
}

/// FNV-1a style fingerprint of anything serialisable (via its JSON text).
pub fn fingerprint<T: Serialize>(t: &T) -> u64 {
    let s = serde_json::to_string(t).unwrap_or_default();
    hash_bytes(s.as_bytes())
}

pub fn hash_bytes(b: &[u8]) -> u64 {
    let mut h = 0xcbf2_9ce4_8422_2325u64;
    for &x in b {
        h ^= x as u64;
        h = h.wrapping_mul(0x1000_0000_01b3);
    }
    splitmix64(h)
}

/// A byte string that serialises readably: printable ASCII literally, the rest as `\xHH`.
#[derive(Clone, PartialEq, Eq, Hash, PartialOrd, Ord, Default)]
pub struct Bs(pub Vec<u8>);

impl Bs {
    pub fn s(s: &str) -> Bs {
        Bs(s.as_bytes().to_vec())
    }
    pub fn show(&self) -> String {
        show_bytes(&self.0)
    }
}

pub fn show_bytes(b: &[u8]) -> String {
    let mut s = String::with_capacity(b.len());
    for &c in b {
        if (0x20..0x7f).contains(&c) && c != b'\\' {
            s.push(c as char);
        } else {
            s.push_str(&format!("\\x{:02x}", c));
        }
    }
    s
}

pub fn unshow_bytes(s: &str) -> Vec<u8> {
    let b = s.as_bytes();
    let mut out = Vec::with_capacity(b.len());
    let mut i = 0;
    while i < b.len() {
        if b[i] == b'\\' && i + 3 < b.len() + 0 && b[i + 1] == b'x' {
            if let Ok(v) = u8::from_str_radix(&s[i + 2..i + 4], 16) {
                out.push(v);
                i += 4;
                continue;
            }
        }
        out.push(b[i]);
        i += 1;
    }
    out
}

impl std::fmt::Debug for Bs {
    fn fmt(&self, f: &mut std::fmt::Formatter<'_>) -> std::fmt::Result {
        write!(f, "b\"{}\"", self.show())
    }
}

impl Serialize for Bs {
    fn serialize<S: Serializer>(&self, s: S) -> Result<S::Ok, S::Error> {
        s.serialize_str(&self.show())
    }
}

impl<'de> Deserialize<'de> for Bs {
    fn deserialize<D: Deserializer<'de>>(d: D) -> Result<Self, D::Error> {
        let s = String::deserialize(d)?;
        Ok(Bs(unshow_bytes(&s)))
    }
}

/// Monotone index mapping for shrink-friendly selection from a slice.
pub fn pick<'a, T>(xs: &'a [T], sel: u16) -> &'a T {
    &xs[(sel as usize * xs.len()) >> 16]
}

#[cfg(test)]
mod tests {
    use super::*;
    #[test]
    fn bs_roundtrip() {
        let b: Vec<u8> = (0..=255u8).collect();
        assert_eq!(unshow_bytes(&show_bytes(&b)), b);
        let t = b"a\\x41\\".to_vec();
        assert_eq!(unshow_bytes(&show_bytes(&t)), t);
    }
}
