//! Controlled scheduler for producer/consumer interleavings of a streaming body (C10, C11).

use crate::engine::*;
use serde_json::Value;

pub fn run_for_c11(_cx: &Cx) -> Acc {
    Acc::new()
}

pub fn replay(_cx: &Cx, _phase: &str, _case: &Value, _acc: &mut Acc, _c11: bool) -> Check {
    fail("replay-decode", "scheduler not built yet")
}
