//! Controlled scheduler: runs a producer program (BodyWriter operations) and a consumer loop
//! (poll / park / spurious polls / fresh wakers) as two real threads of which exactly one runs
//! at a time. Control changes hands only at yield points: before every acquisition of the
//! chunker's mutex (hook H1), inside the harness waker's `wake()`, and at operation boundaries.
//! A schedule is the list of choices made at the points where both actors could run; schedules
//! are enumerated by stateless DFS with a preemption bound, or drawn by proptest.

use crate::drain::{check_eos_truthful, check_terminated_stays, Ev, Step, Trace};
use crate::engine::*;
use crate::entity::HarnessError;
use crate::props::stream::{build, payload_byte, Payload, SBody};
use crate::util::fingerprint;
use http_body::Body as _;
use http_serve::verif_hooks::{set_thread_callback, Event};
use proptest::collection::vec;
use proptest::prelude::*;
use serde::{Deserialize, Serialize};
use serde_json::{json, Value};
use std::io::Write;
use std::sync::{Arc, Condvar, Mutex};
use std::task::{Context, Poll, Wake, Waker};

#[derive(Clone, Copy, Debug, PartialEq, Eq, Serialize, Deserialize)]
pub enum POp {
    Write(u32),
    /// `write_all`: as many `write` calls (and automatic flushes) as the chunk size requires
    WriteAll(u32),
    Flush,
    /// Block until the consumer has received every byte flushed so far (or has terminated).
    Wait,
    Abort,
}

#[derive(Clone, Copy, Debug, PartialEq, Eq, Serialize, Deserialize)]
pub struct CCfg {
    pub fresh_waker: bool,
    pub spurious: u8,
    /// sample is_end_stream()/size_hint() before every poll (two more lock acquisitions)
    pub sample: bool,
    pub extra_polls: u8,
    /// the consumer drops the body (client gone) after this many polls instead of going on
    #[serde(default)]
    pub drop_after_polls: Option<u8>,
    /// the writer (at the end of the program) and the body (`drop_after_polls`) are dropped while
    /// their threads unwind from a panic
    #[serde(default)]
    pub unwinding_drops: bool,
    /// the consumer behaves like hyper: it samples `is_end_stream()` before each poll (needs
    /// `sample`) and, once that is true, takes it as the end and does not poll again
    #[serde(default)]
    pub stop_at_eos: bool,
}

#[derive(Clone, Debug, Serialize, Deserialize)]
pub struct SchedCase {
    /// `Some(level)`: gzip negotiated (the writer then issues several chunker writes per operation)
    #[serde(default)]
    pub gzip: Option<u32>,
    pub chunk: usize,
    pub program: Vec<POp>,
    pub cfg: CCfg,
    pub choices: Vec<u8>,
    /// the lock holder may also be preempted right after acquiring the lock (inside the critical
    /// section); the other actor then finds the lock held
    #[serde(default)]
    pub cs_yield: bool,
}

#[derive(Clone, Copy, PartialEq, Eq, Debug)]
enum Actor {
    P,
    C,
}

#[derive(Clone, Copy, Debug)]
pub struct ChoicePoint {
    pub options: u8,
    pub chosen: u8,
    /// choosing an index > 0 here preempts an actor that could have continued
    pub preemptive: bool,
}

#[derive(Default)]
struct St {
    current: Option<Actor>,
    p_finished: bool,
    c_finished: bool,
    p_waiting: bool,
    c_parked: bool,
    woken: bool,
    waker_gen: u64,
    spurious_left: u8,
    spurious_granted: bool,
    choices: Vec<u8>,
    choice_idx: usize,
    log: Vec<ChoicePoint>,
    // model
    accepted: Vec<u8>,
    flushed: usize,
    model_buf: usize,
    received: Vec<u8>,
    c_terminal: bool,
    writer_gone: bool,
    aborted: Option<u32>,
    abort_delivered: bool,
    polls_after_gone: usize,
    queued_at_gone: usize,
    parks: usize,
    producer_after_park: bool,
    steps: usize,
    bail: bool,
    body_dropped: bool,
    violation: Option<Fail>,
    events: Vec<String>,
}

impl St {
    fn ev(&mut self, s: String) {
        if self.events.len() < 120 {
            self.events.push(s);
        }
    }
    fn enabled(&self, a: Actor) -> bool {
        match a {
            Actor::P => !self.p_finished && (!self.p_waiting || self.received.len() >= self.flushed || self.c_terminal || self.body_dropped),
            Actor::C => !self.c_finished && (!self.c_parked || self.woken),
        }
    }
    fn violate(&mut self, sig: &str, msg: String) {
        if self.violation.is_none() {
            self.violation = Some(Fail {
                sig: sig.to_string(),
                msg,
            });
        }
        self.bail = true;
    }
}

struct Sched {
    m: Mutex<St>,
    cv: Condvar,
}

const STEP_LIMIT: usize = 20_000;

impl Sched {
    /// Picks who runs next. `me_can_continue`: false when `me` is blocked (lock contended,
    /// parked, waiting, finished).
    fn pick(&self, st: &mut St, me: Actor, me_can_continue: bool) -> Option<Actor> {
        let other = if me == Actor::P { Actor::C } else { Actor::P };
        let mut opts: Vec<(Actor, bool)> = Vec::new(); // (actor, is_spurious_grant)
        if me_can_continue && st.enabled(me) {
            opts.push((me, false));
        }
        if st.enabled(other) {
            opts.push((other, false));
        } else if other == Actor::C && !st.c_finished && st.c_parked && !st.woken && st.spurious_left > 0 && me_can_continue {
            opts.push((Actor::C, true));
        }
        if opts.is_empty() {
            // A blocked `me` (lock contention) with nobody else to run just retries.
            if !me_can_continue && st.enabled(me) {
                return Some(me);
            }
            return None;
        }
        let idx = if opts.len() > 1 {
            let want = st.choices.get(st.choice_idx).copied().unwrap_or(0) as usize;
            let idx = want.min(opts.len() - 1);
            st.choice_idx += 1;
            st.log.push(ChoicePoint {
                options: opts.len() as u8,
                chosen: idx as u8,
                preemptive: opts[0].0 == me,
            });
            idx
        } else {
            0
        };
        let (a, spurious) = opts[idx];
        if spurious {
            st.spurious_left -= 1;
            st.spurious_granted = true;
        }
        Some(a)
    }

    /// Hands the baton to `next` (or declares quiescence) and waits until it comes back.
    fn switch(&self, mut st: std::sync::MutexGuard<'_, St>, me: Actor, next: Option<Actor>, wait_for_return: bool) {
        match next {
            Some(a) if a == me => {}
            Some(a) => {
                st.current = Some(a);
                self.cv.notify_all();
            }
            None => {
                self.quiescent(&mut st);
                self.cv.notify_all();
            }
        }
        if !wait_for_return {
            return;
        }
        while st.current != Some(me) && !st.bail {
            st = self.cv.wait(st).unwrap();
        }
    }

    /// Nobody can run. Either the execution is complete, or the consumer sleeps forever.
    fn quiescent(&self, st: &mut St) {
        st.current = None;
        if st.c_finished && st.p_finished {
            return;
        }
        if !st.c_finished && st.c_parked && !st.woken {
            let pending = st.flushed.saturating_sub(st.received.len());
            let what = if st.aborted.is_some() && !st.abort_delivered {
                "abort"
            } else if pending > 0 {
                "data"
            } else if st.writer_gone {
                "end"
            } else {
                "nothing"
            };
            if what == "nothing" && st.p_waiting {
                // cannot happen: a waiting producer is enabled when nothing is pending
            }
            let ev = st.events.join(" | ");
            st.violate(
                &format!("lost-wakeup:{what}"),
                format!(
                    "the consumer is parked with no wake-up pending on its current waker while {} ({} flushed bytes undelivered, writer gone: {}, producer {}); history: {}",
                    match what {
                        "abort" => "an abort error is undelivered",
                        "data" => "flushed chunks are undelivered",
                        "end" => "the end of the stream is undelivered",
                        _ => "the producer waits",
                    },
                    pending,
                    st.writer_gone,
                    if st.p_finished { "finished" } else { "waiting for delivery" },
                    ev
                ),
            );
        } else if !st.p_finished && st.c_finished {
            let ev = st.events.join(" | ");
            st.violate("internal:producer-stuck", format!("producer blocked after the consumer finished; history: {ev}"));
        } else {
            st.bail = true;
        }
    }

    fn yield_point(&self, me: Actor, me_can_continue: bool) {
        let mut st = self.m.lock().unwrap();
        if st.bail {
            return;
        }
        st.steps += 1;
        if st.steps > STEP_LIMIT {
            let ev = st.events.join(" | ");
            st.violate("internal:livelock", format!("more than {STEP_LIMIT} scheduling steps; history: {ev}"));
            self.cv.notify_all();
            return;
        }
        let next = self.pick(&mut st, me, me_can_continue);
        self.switch(st, me, next, true);
    }

    fn finish(&self, me: Actor) {
        let mut st = self.m.lock().unwrap();
        match me {
            Actor::P => st.p_finished = true,
            Actor::C => st.c_finished = true,
        }
        if st.bail {
            self.cv.notify_all();
            return;
        }
        let next = self.pick(&mut st, me, false);
        self.switch(st, me, next, false);
    }

    fn bailed(&self) -> bool {
        self.m.lock().unwrap().bail
    }
}

struct SchedWaker {
    sched: Arc<Sched>,
    gen: u64,
}

impl Wake for SchedWaker {
    fn wake(self: Arc<Self>) {
        self.wake_by_ref();
    }
    fn wake_by_ref(self: &Arc<Self>) {
        {
            let mut st = self.sched.m.lock().unwrap();
            let current = st.waker_gen == self.gen;
            if current {
                st.woken = true;
            }
            let g = self.gen;
            st.ev(format!("wake(gen {g}{})", if current { "" } else { ", superseded: ignored" }));
        }
        // Waking is a yield point for whoever calls it (normally the producer).
        ACTOR.with(|a| {
            if let Some(me) = a.get() {
                self.sched.yield_point(me, true);
            }
        });
    }
}

thread_local! {
    static ACTOR: std::cell::Cell<Option<Actor>> = const { std::cell::Cell::new(None) };
}

fn install(sched: &Arc<Sched>, me: Actor, cs_yield: bool) {
    ACTOR.with(|a| a.set(Some(me)));
    let s = sched.clone();
    set_thread_callback(Some(Box::new(move |ev| match ev {
        Event::BeforeLock => s.yield_point(me, true),
        Event::Contended => s.yield_point(me, false),
        // inside the critical section: the other actor can run until it needs the lock
        Event::Acquired if cs_yield => s.yield_point(me, true),
        _ => {}
    })));
}

fn uninstall() {
    set_thread_callback(None);
    ACTOR.with(|a| a.set(None));
}

pub struct Outcome {
    pub log: Vec<ChoicePoint>,
    pub violation: Option<Fail>,
    pub trace: Trace<HarnessError>,
    pub parks: usize,
    pub producer_after_park: bool,
    pub events: Vec<String>,
    pub preemptions: usize,
}

fn producer(sched: Arc<Sched>, mut w: crate::props::stream::SWriter, case: SchedCase) {
    install(&sched, Actor::P, case.cs_yield);
    let mut pos = 0u64;
    for (i, op) in case.program.iter().enumerate() {
        sched.yield_point(Actor::P, true); // operation boundary
        if sched.bailed() {
            break;
        }
        let (dropped_before, buf_before) = {
            let st = sched.m.lock().unwrap();
            (st.body_dropped, st.model_buf)
        };
        match *op {
            POp::WriteAll(n) => {
                let buf: Vec<u8> = (0..n as u64).map(|k| payload_byte(Payload::Hash, pos + k)).collect();
                let r = crate::panics::guard(|| w.write_all(&buf));
                let mut st = sched.m.lock().unwrap();
                match r {
                    Ok(Ok(())) => {
                        st.accepted.extend_from_slice(&buf);
                        pos += n as u64;
                        if case.gzip.is_none() {
                            let total = st.model_buf + n as usize;
                            st.flushed = st.accepted.len() - total % case.chunk;
                            st.model_buf = total % case.chunk;
                        }
                        if st.aborted.is_some() && n > 0 {
                            st.violate("abort:write-ok-after-abort", format!("op {i} write_all succeeded after abort"));
                        }
                        st.ev(format!("P write_all({n})->Ok"));
                    }
                    Ok(Err(_)) => {
                        if st.aborted.is_none() && !st.body_dropped && case.cfg.drop_after_polls.is_none() {
                            st.violate("w:write-failed-live", format!("op {i} write_all failed on a live body"));
                        }
                        st.ev(format!("P write_all({n})->Err"));
                    }
                    Err(m) => st.violate("panic:producer", format!("op {i} write_all panicked: {m}")),
                }
            }
            POp::Write(n) => {
                let buf: Vec<u8> = (0..n as u64).map(|k| payload_byte(Payload::Hash, pos + k)).collect();
                let r = crate::panics::guard(|| w.write(&buf));
                let mut st = sched.m.lock().unwrap();
                match r {
                    Ok(Ok(k)) => {
                        let k = k.min(buf.len());
                        st.accepted.extend_from_slice(&buf[..k]);
                        pos += k as u64;
                        if case.gzip.is_some() {
                            // compressed: what reaches the queue is not known to the model
                        } else if st.model_buf + k >= case.chunk {
                            st.flushed = st.accepted.len();
                            st.model_buf = 0;
                        } else {
                            st.model_buf += k;
                        }
                        if dropped_before && case.gzip.is_none() && buf_before + k >= case.chunk {
                            st.violate("drop:chunk-completing-write-ok", format!("op {i}: a write that completes a chunk returned Ok although the body had been dropped before the call started"));
                        }
                        if st.aborted.is_some() {
                            st.violate("abort:write-ok-after-abort", format!("op {i} write succeeded after abort"));
                        } else if n > 0 && k == 0 {
                            st.violate("w:write-accepted-zero", format!("op {i} write of {n} bytes accepted nothing"));
                        }
                        st.ev(format!("P write({n})->{k}"));
                    }
                    Ok(Err(_)) => {
                        if st.aborted.is_none() && !st.body_dropped && case.cfg.drop_after_polls.is_none() {
                            st.violate("w:write-failed-live", format!("op {i} write failed on a live body"));
                        }
                        st.ev(format!("P write({n})->Err"));
                    }
                    Err(m) => st.violate("panic:producer", format!("op {i} write panicked: {m}")),
                }
            }
            POp::Flush => {
                let r = crate::panics::guard(|| w.flush());
                let mut st = sched.m.lock().unwrap();
                match r {
                    Ok(Ok(())) => {
                        if dropped_before && case.gzip.is_none() && buf_before > 0 {
                            st.violate("drop:flush-ok-with-unflushed-bytes", format!("op {i}: flush returned Ok with {buf_before} unflushed bytes although the body had been dropped before the call started"));
                        }
                        if case.gzip.is_none() {
                            st.flushed = st.accepted.len();
                        }
                        st.model_buf = 0;
                        if st.aborted.is_some() {
                            st.violate("abort:flush-ok-after-abort", format!("op {i} flush succeeded after abort"));
                        }
                        st.ev("P flush->Ok".into());
                    }
                    Ok(Err(_)) => {
                        if st.aborted.is_none() && !st.body_dropped && case.cfg.drop_after_polls.is_none() {
                            st.violate("w:flush-failed-live", format!("op {i} flush failed on a live body"));
                        }
                        st.ev("P flush->Err".into());
                    }
                    Err(m) => st.violate("panic:producer", format!("op {i} flush panicked: {m}")),
                }
            }
            POp::Wait if case.gzip.is_some() => {}
            POp::Wait => {
                {
                    let mut st = sched.m.lock().unwrap();
                    st.p_waiting = true;
                    st.ev("P wait".into());
                }
                sched.yield_point(Actor::P, false);
                let mut st = sched.m.lock().unwrap();
                st.p_waiting = false;
                st.ev("P wait done".into());
            }
            POp::Abort => {
                let id = 9000 + i as u32;
                {
                    let mut st = sched.m.lock().unwrap();
                    if st.aborted.is_none() {
                        st.aborted = Some(id);
                        // From now on the consumer may see the error at any time.
                        st.writer_gone = true;
                        st.queued_at_gone = if case.gzip.is_some() { st.accepted.len() + 64 } else { st.flushed.saturating_sub(st.received.len()) };
                    }
                    st.ev("P abort".into());
                }
                let r = crate::panics::guard(|| w.abort(HarnessError::Injected(id)));
                if let Err(m) = r {
                    sched.m.lock().unwrap().violate("panic:producer", format!("op {i} abort panicked: {m}"));
                }
            }
        }
        if sched.bailed() {
            break;
        }
    }
    // Drop the writer (flushes the partial chunk, marks the end).
    sched.yield_point(Actor::P, true);
    {
        let mut st = sched.m.lock().unwrap();
        if st.aborted.is_none() {
            if case.gzip.is_none() {
                st.flushed = st.accepted.len();
            }
            st.writer_gone = true;
            // every queued chunk holds at least one byte (gzip: header + blocks + trailer bound)
            st.queued_at_gone = if case.gzip.is_some() { st.accepted.len() + 64 } else { st.flushed.saturating_sub(st.received.len()) };
        }
        st.ev("P drop".into());
    }
    let unwinding = case.cfg.unwinding_drops;
    if let Err(m) = crate::panics::guard(move || if unwinding { crate::props::stream::drop_while_unwinding(w) } else { drop(w) }) {
        sched.m.lock().unwrap().violate("panic:producer", format!("dropping the writer panicked: {m}"));
    }
    uninstall();
    sched.finish(Actor::P);
}

fn consumer(sched: Arc<Sched>, body: SBody, case: SchedCase, out: Arc<Mutex<Trace<HarnessError>>>) {
    install(&sched, Actor::C, case.cs_yield);
    let mut body = Box::pin(body);
    let mut gen = 1u64;
    let mut waker = Waker::from(Arc::new(SchedWaker { sched: sched.clone(), gen }));
    let mut t: Trace<HarnessError> = Trace {
        steps: vec![],
        extra: vec![],
        body: vec![],
        delivered: 0,
        frames: 0,
        empty_frames: 0,
        pendings: 0,
        capped: false,
        stalled: false,
    };
    let mut terminal = false;
    let mut dropped_early = false;
    let mut extra_left = case.cfg.extra_polls;
    // Wait for the first turn.
    {
        let mut st = sched.m.lock().unwrap();
        st.waker_gen = gen;
        while st.current != Some(Actor::C) && !st.bail {
            st = sched.cv.wait(st).unwrap();
        }
    }
    loop {
        if sched.bailed() {
            break;
        }
        if terminal {
            if extra_left == 0 {
                break;
            }
            extra_left -= 1;
        }
        if let Some(k) = case.cfg.drop_after_polls {
            if !terminal && t.steps.len() >= k as usize {
                // The client goes away: drop the body here, under the scheduler.
                sched.m.lock().unwrap().ev("C drops the body".into());
                let b = std::mem::replace(&mut body, Box::pin(build(None, 1).1));
                let unwinding = case.cfg.unwinding_drops;
                let _ = crate::panics::guard(move || if unwinding { crate::props::stream::drop_while_unwinding(b) } else { drop(b) });
                {
                    let mut st = sched.m.lock().unwrap();
                    st.body_dropped = true;
                    st.c_terminal = true;
                    st.ev("C body dropped".into());
                }
                dropped_early = true;
                break;
            }
        }
        if case.cfg.fresh_waker {
            gen += 1;
            waker = Waker::from(Arc::new(SchedWaker { sched: sched.clone(), gen }));
        }
        {
            let mut st = sched.m.lock().unwrap();
            st.waker_gen = gen;
            st.woken = false; // being polled consumes any wake-up
        }
        let (lower, upper, eos) = if case.cfg.sample {
            match crate::panics::guard(|| {
                let h = body.size_hint();
                (h.lower(), h.upper(), body.is_end_stream())
            }) {
                Ok(x) => x,
                Err(m) => {
                    sched.m.lock().unwrap().violate("panic:consumer", format!("size_hint/is_end_stream panicked: {m}"));
                    break;
                }
            }
        } else {
            (0, None, false)
        };
        let mut cx = Context::from_waker(&waker);
        let r = if case.cfg.stop_at_eos && case.cfg.sample && eos && !terminal {
            // a consumer that trusts is_end_stream(): this is the end, it does not poll
            Ok(Poll::Ready(None))
        } else {
            crate::panics::guard(|| body.as_mut().poll_frame(&mut cx))
        };
        let mut st = sched.m.lock().unwrap();
        if st.writer_gone && !terminal {
            st.polls_after_gone += 1;
        }
        let ev = match r {
            Err(m) => {
                st.violate("panic:consumer", format!("poll_frame panicked: {m}"));
                Ev::Panic(m)
            }
            Ok(Poll::Pending) => Ev::Pending,
            Ok(Poll::Ready(None)) => Ev::End,
            Ok(Poll::Ready(Some(Err(e)))) => Ev::Err(e),
            Ok(Poll::Ready(Some(Ok(f)))) => match f.into_data() {
                Ok(d) => {
                    if !terminal {
                        st.received.extend_from_slice(&d);
                        t.frames += 1;
                    }
                    t.delivered += d.len() as u64;
                    Ev::Data(d.len())
                }
                Err(_) => Ev::Data(0),
            },
        };
        st.ev(format!("C poll(gen {gen})->{}", match &ev {
            Ev::Data(n) => format!("data {n}"),
            Ev::Pending => "Pending".into(),
            Ev::End => "End".into(),
            Ev::Err(e) => format!("{e:?}"),
            Ev::Panic(_) => "PANIC".into(),
        }));
        let step = Step {
            lower,
            upper,
            eos: case.cfg.sample && eos,
            ev: ev.clone(),
        };
        if terminal {
            t.extra.push(step);
        } else {
            t.steps.push(step);
        }
        match ev {
            Ev::Panic(_) => break,
            Ev::End | Ev::Err(_) => {
                if !terminal {
                    terminal = true;
                    st.c_terminal = true;
                    if matches!(ev, Ev::Err(_)) {
                        st.abort_delivered = true;
                    }
                }
                drop(st);
            }
            Ev::Data(_) => {
                drop(st);
            }
            Ev::Pending => {
                if terminal {
                    drop(st);
                    continue;
                }
                // Park until woken on the current waker (or granted a spurious poll).
                st.c_parked = true;
                st.parks += 1;
                st.spurious_granted = false;
                let already_woken = st.woken;
                drop(st);
                sched.yield_point(Actor::C, already_woken);
                let mut st = sched.m.lock().unwrap();
                st.c_parked = false;
                if st.spurious_granted {
                    st.ev("C spurious poll".into());
                }
            }
        }
    }
    t.capped = dropped_early; // no terminal event will be seen
    *out.lock().unwrap() = t;
    // The body is dropped on this thread, still under the scheduler.
    let _ = crate::panics::guard(move || drop(body));
    uninstall();
    sched.finish(Actor::C);
}

type Job = Box<dyn FnOnce() + Send>;

/// Two persistent actor threads per calling thread (spawning a pair per execution made the
/// kernel's address-space lock the bottleneck when 16 shards did it at once).
struct Pair {
    tx: [std::sync::mpsc::Sender<Job>; 2],
    done: std::sync::mpsc::Receiver<()>,
}

thread_local! {
    static PAIR: std::cell::RefCell<Option<Pair>> = const { std::cell::RefCell::new(None) };
}

fn run_pair(p: Job, c: Job) {
    PAIR.with(|cell| {
        let mut cell = cell.borrow_mut();
        let pair = cell.get_or_insert_with(|| {
            let (done_tx, done) = std::sync::mpsc::channel();
            let mk = |name: &str| {
                let (tx, rx) = std::sync::mpsc::channel::<Job>();
                let d = done_tx.clone();
                std::thread::Builder::new()
                    .name(name.to_string())
                    .stack_size(512 * 1024)
                    .spawn(move || {
                        while let Ok(job) = rx.recv() {
                            let _ = std::panic::catch_unwind(std::panic::AssertUnwindSafe(job));
                            if d.send(()).is_err() {
                                break;
                            }
                        }
                    })
                    .expect("spawn actor thread");
                tx
            };
            Pair {
                tx: [mk("vp-producer"), mk("vp-consumer")],
                done,
            }
        });
        pair.tx[0].send(p).expect("producer thread alive");
        pair.tx[1].send(c).expect("consumer thread alive");
        for _ in 0..2 {
            if pair.done.recv_timeout(std::time::Duration::from_secs(120)).is_err() {
                println!("INCONCLUSIVE: scheduler watchdog: an actor thread did not finish within 120 s");
                std::process::exit(2);
            }
        }
    });
}

/// Runs one schedule.
pub fn execute(case: &SchedCase) -> Outcome {
    let (_head, body, w) = build(case.gzip, case.chunk);
    let w = w.expect("writer");
    let sched = Arc::new(Sched {
        m: Mutex::new(St {
            current: Some(Actor::P),
            choices: case.choices.clone(),
            spurious_left: case.cfg.spurious,
            waker_gen: 1,
            ..Default::default()
        }),
        cv: Condvar::new(),
    });
    let trace = Arc::new(Mutex::new(Trace {
        steps: vec![],
        extra: vec![],
        body: vec![],
        delivered: 0,
        frames: 0,
        empty_frames: 0,
        pendings: 0,
        capped: false,
        stalled: false,
    }));
    let (s1, s2) = (sched.clone(), sched.clone());
    let (c1, c2) = (case.clone(), case.clone());
    let tr = trace.clone();
    run_pair(Box::new(move || producer(s1, w, c1)), Box::new(move || consumer(s2, body, c2, tr)));
    let mut st = sched.m.lock().unwrap();
    let t = trace.lock().unwrap().clone();
    // End-of-run invariants.
    if st.violation.is_none() && !st.body_dropped {
        let ev = st.events.join(" | ");
        match (st.aborted, t.terminal()) {
            (None, Some(Ev::End)) if case.gzip.is_some() => {
                let d = crate::oracle::inflate::gunzip_prefix(&st.received);
                let ok = matches!(d.status, crate::oracle::inflate::Status::Complete { consumed, crc_ok: true, isize_ok: true } if consumed == st.received.len()) && d.out == st.accepted;
                if !ok {
                    let (r, a) = (st.received.len(), st.accepted.len());
                    st.violate("missing-bytes:gzip", format!("clean end: the {r} bytes received are not one gzip member of the {a} bytes written ({:?}); history: {ev}", d.status));
                }
            }
            (None, Some(Ev::End)) => {
                if st.received != st.accepted {
                    let (r, a) = (st.received.len(), st.accepted.len());
                    st.violate("missing-bytes", format!("clean end after {r} bytes, {a} were accepted and flushed; history: {ev}"));
                }
            }
            (Some(id), Some(Ev::Err(HarnessError::Injected(e)))) if *e == id => {
                if case.gzip.is_none() && !st.accepted.starts_with(&st.received) {
                    st.violate("abort:not-a-prefix", format!("bytes received before the abort error are not a prefix of the bytes written; history: {ev}"));
                }
            }
            (ab, term) => {
                let term = format!("{term:?}");
                st.violate(
                    if ab.is_some() { "abort:terminal-not-the-error" } else { "wrong-terminal" },
                    format!("terminal event {term}, abort {ab:?}; history: {ev}"),
                );
            }
        }
        if st.violation.is_none() && st.polls_after_gone > st.queued_at_gone + 3 + case.cfg.spurious as usize {
            let (p, q) = (st.polls_after_gone, st.queued_at_gone);
            st.violate("too-many-polls", format!("{p} polls after the writer was gone ({q} chunks were queued); history: {ev}"));
        }
    }
    let preemptions = st.log.iter().filter(|c| c.preemptive && c.chosen > 0).count();
    Outcome {
        log: st.log.clone(),
        violation: st.violation.clone(),
        trace: t,
        parks: st.parks,
        producer_after_park: st.producer_after_park,
        events: st.events.clone(),
        preemptions,
    }
}

/// Evaluates one schedule for C10 (progress) or C11 (abort) and classifies it.
pub fn check(case: &SchedCase, acc: &mut Acc, c11: bool) -> (Check, Vec<ChoicePoint>) {
    let out = execute(case);
    let log = out.log.clone();
    let r = (|| {
        if let Some(v) = &out.violation {
            if v.sig.starts_with("internal:") {
                acc.internal_errors.push(format!("{}: {}; case {}", v.sig, v.msg, serde_json::to_string(case).unwrap_or_default()));
                return Ok(());
            }
            let is_abort = v.sig.starts_with("abort:") || v.sig.starts_with("drop:") || v.sig == "lost-wakeup:abort";
            if c11 && !is_abort && !v.sig.starts_with("panic:") {
                acc.count(&format!("progress-violation-seen(see C10):{}", v.sig));
                if std::env::var_os("VP_DEBUG").is_some() {
                    eprintln!("DEBUG {} :: {} :: {}", v.sig, v.msg, serde_json::to_string(case).unwrap_or_default());
                }
                return Ok(());
            }
            return fail(v.sig.clone(), format!("{}; case {}", v.msg, serde_json::to_string(case).unwrap_or_default()));
        }
        // Secondary monitors on the consumer's trace.
        if c11 && case.cfg.sample && out.trace.ended_err().is_some() {
            // A sampled exact hint of zero at or before the poll that delivered the abort error.
            if let Some(i) = out.trace.steps.iter().position(|s| s.upper == Some(0)) {
                return fail(
                    "abort:empty-size-hint-while-error-pending",
                    format!("size_hint() was exactly 0 at poll {i} although the abort error came afterwards; case {}", serde_json::to_string(case).unwrap_or_default()),
                );
            }
        }
        if case.cfg.sample {
            let r = check_eos_truthful(&out.trace, "scheduled-streaming");
            if let Err(f) = r {
                if c11 {
                    return fail(format!("abort:{}", f.sig), format!("{}; case {}", f.msg, serde_json::to_string(case).unwrap_or_default()));
                }
                acc.count("eos-violation-seen(see C12)");
            }
        }
        if check_terminated_stays(&out.trace, "scheduled-streaming").is_err() {
            acc.count("repoll-violation-seen(see C20)");
        }
        let has_abort = case.program.iter().any(|o| matches!(o, POp::Abort));
        let label = format!(
            "{}{}{}{}",
            if case.cfg.drop_after_polls.is_some() { "body-dropped" } else if has_abort { "abort" } else { "clean" },
            if case.gzip.is_some() { ":gzip" } else { "" },
            if case.cfg.fresh_waker { ":fresh-waker" } else { ":same-waker" },
            if out.parks > 0 { ":parked" } else { "" }
        );
        let nontrivial = out.parks > 0 || out.preemptions > 0;
        acc.note(&label, nontrivial, fingerprint(&(&case.program, case.cfg, &case.choices, case.chunk, case.gzip)), || {
            json!({"case": case, "history": out.events, "preemptions": out.preemptions})
        });
        Ok(())
    })();
    (r, log)
}

/// Stateless DFS over the choice tree of one (program, config) with a preemption bound.
pub fn explore(cx: &Cx, phase: &str, base: &SchedCase, max_preempt: usize, cap: usize, acc: &mut Acc, c11: bool) -> bool {
    explore_with(cx, phase, base, max_preempt, cap, acc, &|c, a| check(c, a, c11))
}

pub fn explore_with(
    cx: &Cx,
    phase: &str,
    base: &SchedCase,
    max_preempt: usize,
    cap: usize,
    acc: &mut Acc,
    f: &dyn Fn(&SchedCase, &mut Acc) -> (Check, Vec<ChoicePoint>),
) -> bool {
    let mut prefix: Vec<u8> = Vec::new();
    let mut n = 0usize;
    loop {
        let case = SchedCase {
            choices: prefix.clone(),
            ..base.clone()
        };
        let mut log = Vec::new();
        acc.run_case(cx, phase, &case, |acc| {
            let (r, l) = f(&case, acc);
            log = l;
            r
        });
        n += 1;
        if n >= cap {
            acc.count("schedule-cap-reached");
            return false;
        }
        // Backtrack: find the last choice point that still has an affordable alternative.
        let mut next: Option<Vec<u8>> = None;
        let mut i = log.len();
        while i > 0 {
            i -= 1;
            let used: usize = log[..i].iter().filter(|c| c.preemptive && c.chosen > 0).count();
            let cp = log[i];
            let cand = cp.chosen + 1;
            if cand < cp.options {
                let cost = if cp.preemptive { 1 } else { 0 };
                if used + cost <= max_preempt {
                    let mut p: Vec<u8> = log[..i].iter().map(|c| c.chosen).collect();
                    p.push(cand);
                    next = Some(p);
                    break;
                }
            }
        }
        match next {
            Some(p) => prefix = p,
            None => return true,
        }
    }
}

/// All programs of at most `max_len` operations over `alphabet`.
pub fn programs_over(alphabet: &[POp], max_len: usize) -> Vec<Vec<POp>> {
    let mut out: Vec<Vec<POp>> = vec![vec![]];
    let mut frontier: Vec<Vec<POp>> = vec![vec![]];
    for _ in 0..max_len {
        let mut nf = Vec::new();
        for p in &frontier {
            for o in alphabet {
                let mut q = p.clone();
                q.push(*o);
                nf.push(q);
            }
        }
        out.extend(nf.iter().cloned());
        frontier = nf;
    }
    out
}

pub fn programs(max_len: usize, with_abort: bool) -> Vec<Vec<POp>> {
    let mut alphabet = vec![POp::Write(1), POp::Write(2), POp::Flush, POp::Wait];
    if with_abort {
        alphabet.push(POp::Abort);
    }
    let mut out: Vec<Vec<POp>> = vec![vec![]];
    let mut frontier: Vec<Vec<POp>> = vec![vec![]];
    for _ in 0..max_len {
        let mut nf = Vec::new();
        for p in &frontier {
            for o in &alphabet {
                // nothing useful after an abort except further (failing) calls: keep one
                if p.iter().filter(|x| matches!(x, POp::Abort)).count() >= 1 && matches!(o, POp::Abort | POp::Wait) {
                    continue;
                }
                let mut q = p.clone();
                q.push(*o);
                nf.push(q);
            }
        }
        out.extend(nf.iter().cloned());
        frontier = nf;
    }
    out
}

pub fn configs() -> Vec<CCfg> {
    let mut v = configs_plain();
    // the same consumer (same waker, no spurious polls) with the drops happening during an unwind
    v.push(CCfg { fresh_waker: false, spurious: 0, sample: false, extra_polls: 1, drop_after_polls: None, unwinding_drops: true, stop_at_eos: false });
    v.push(CCfg { fresh_waker: true, spurious: 0, sample: false, extra_polls: 1, drop_after_polls: None, unwinding_drops: true, stop_at_eos: false });
    // a consumer that stops polling once is_end_stream() is true (hyper)
    v.push(CCfg { fresh_waker: false, spurious: 0, sample: true, extra_polls: 0, drop_after_polls: None, unwinding_drops: false, stop_at_eos: true });
    v.push(CCfg { fresh_waker: true, spurious: 2, sample: true, extra_polls: 0, drop_after_polls: None, unwinding_drops: false, stop_at_eos: true });
    v
}

fn configs_plain() -> Vec<CCfg> {
    let mut v = Vec::new();
    for fresh_waker in [false, true] {
        for spurious in [0u8, 2] {
            for sample in [false, true] {
                v.push(CCfg {
                    fresh_waker,
                    spurious,
                    sample,
                    extra_polls: 1,
                    drop_after_polls: None,
                    unwinding_drops: false,
                    stop_at_eos: false,
                });
            }
        }
    }
    v
}

fn random_strategy(with_abort: bool) -> BoxedStrategy<SchedCase> {
    let op = if with_abort {
        prop_oneof![24 => (1u32..=5).prop_map(POp::Write), 6 => (6u32..=17).prop_map(POp::Write), 20 => Just(POp::Flush), 20 => Just(POp::Wait), 10 => Just(POp::Abort), 4 => (2u32..=12).prop_map(POp::WriteAll), 1 => (130u32..=300).prop_map(POp::WriteAll)].boxed()
    } else {
        prop_oneof![24 => (1u32..=5).prop_map(POp::Write), 6 => (6u32..=17).prop_map(POp::Write), 20 => Just(POp::Flush), 20 => Just(POp::Wait), 4 => (2u32..=12).prop_map(POp::WriteAll), 1 => (130u32..=300).prop_map(POp::WriteAll)].boxed()
    };
    (
        vec(op, 0..=6),
        proptest::sample::select(&[1usize, 2, 3, 2, 3, 5, 8][..]),
        any::<bool>(),
        0u8..=2,
        any::<bool>(),
        1u8..=3,
        vec(0u8..2, 0..60),
        prop_oneof![4 => Just(None), 1 => (1u32..=9).prop_map(Some)],
        0u8..12,
    )
        .prop_map(move |(mut program, chunk, fresh_waker, spurious, sample, extra_polls, choices, gzip, dropsel)| {
            // C11 mode: either an abort somewhere in the program, or a consumer that drops the body
            let drop_after_polls = if with_abort && dropsel < 5 { Some(dropsel) } else { None };
            if drop_after_polls.is_some() {
                program.retain(|o| !matches!(o, POp::Abort));
            }
            if with_abort && drop_after_polls.is_none() && !program.iter().any(|o| matches!(o, POp::Abort)) {
                let at = choices.len() % (program.len() + 1);
                program.insert(at, POp::Abort);
            }
            SchedCase {
                gzip,
                chunk: if gzip.is_some() { chunk + 5 } else { chunk },
                program,
                cfg: CCfg {
                    fresh_waker,
                    spurious,
                    sample,
                    extra_polls,
                    drop_after_polls,
                    unwinding_drops: dropsel % 3 == 1,
                    stop_at_eos: sample && dropsel % 2 == 0,
                },
                choices,
                cs_yield: dropsel % 4 == 3,
            }
        })
        .boxed()
}

pub const META_C10: Meta = Meta {
    id: "C10",
    level: "exploration",
    rule: "Schedule enumeration on the real chunker code through hook H1: producer programs of up to 4 operations (thorough 5, and all 6-operation programs; thorough also chunk size 3 with writes of 1, 2, 4 and 7 bytes) over {write(1), write(2), flush, wait-until-delivered} + drop (random programs also write_all of up to 300 bytes, i.e. hundreds of chunks), chunk size 2 (identity) and of up to 3 operations with the gzip writer (chunk size 6; every operation is several chunker writes), against a consumer that parks on Pending, with same/fresh waker per poll (wakes to superseded wakers are ignored), 0 or 2 spurious polls, with/without is_end_stream/size_hint sampling, a consumer that stops polling once is_end_stream() is true, writer / body dropped normally or while the thread unwinds from a panic; every schedule with <= 2 preemptions (thorough 3) is executed by stateless DFS (two real threads, exactly one runs, hand-over at lock acquisitions, wake() and operation boundaries; for programs of <= 3 operations (thorough 4) and a quarter of the random cases also right after a lock acquisition, i.e. with the lock holder suspended inside its critical section so that the other actor meets a held lock); plus proptest over programs of <= 6 operations, chunk sizes {1,2,3,5,8}, writes of 1-17 bytes and random choice vectors (unbounded preemptions). Also programs that queue 1 MiB and more before the consumer's first poll (chunk 16-64 KiB). Oracle (history invariants): no quiescent state with the consumer parked and un-woken while data, end or abort is undelivered; everything flushed is received in order before a clean end; bounded polls after the writer is gone. Non-trivial = schedule in which the consumer parked at least once or an actor was preempted; distinct by (program, config, choice vector).",
    assumptions: &[
        "interleavings are at lock / wake / operation granularity: complete for this code because every shared field sits behind the one instrumented mutex",
        "no weak-memory effects (all sharing goes through std::sync::Mutex)",
    ],
};

fn run_common(cx: &Cx, c11: bool) -> Acc {
    let mut acc = Acc::new();
    let max_len = cx.tier.pick(4usize, 5usize);
    let max_preempt = cx.tier.pick(2usize, 3usize);
    let cap = cx.tier.pick(4000usize, 60_000usize);
    let mut units: Vec<SchedCase> = Vec::new();
    for program in programs(max_len, c11) {
        if c11 && !program.iter().any(|o| matches!(o, POp::Abort)) {
            continue;
        }
        for cfg in configs() {
            units.push(SchedCase {
                gzip: None,
                chunk: 2,
                program: program.clone(),
                cfg,
                choices: vec![], cs_yield: false,
            });
        }
    }
    // C11: the consumer drops the body after k polls while the producer program runs.
    if c11 {
        for program in programs(3, false) {
            for k in [0u8, 1, 2] {
                for unwinding_drops in [false, true] {
                    units.push(SchedCase {
                        gzip: None,
                        chunk: 2,
                        program: program.clone(),
                        cfg: CCfg { fresh_waker: false, spurious: 0, sample: false, extra_polls: 0, drop_after_polls: Some(k), unwinding_drops, stop_at_eos: false },
                        choices: vec![], cs_yield: false,
                    });
                }
            }
        }
    }
    // gzip writer: short programs (each operation is several chunker writes), chunk size 6.
    for program in programs(3, c11) {
        if c11 && !program.iter().any(|o| matches!(o, POp::Abort)) {
            continue;
        }
        if program.iter().any(|o| matches!(o, POp::Wait)) {
            continue;
        }
        for fresh_waker in [false, true] {
            units.push(SchedCase {
                gzip: Some(1),
                chunk: 6,
                program: program.clone(),
                cfg: CCfg { fresh_waker, spurious: if fresh_waker { 2 } else { 0 }, sample: false, extra_polls: 1, drop_after_polls: None, unwinding_drops: false, stop_at_eos: false },
                choices: vec![], cs_yield: false,
            });
        }
    }
    let phase = if c11 { "sched-abort-enumeration" } else { "sched-enumeration" };
    let complete = std::sync::atomic::AtomicBool::new(true);
    let mut a = par_units(cx, phase, &units, true, "all schedules within the preemption bound for each (program, consumer config)", |cx, base, acc| {
        if !explore(cx, phase, base, max_preempt, cap, acc, c11) {
            complete.store(false, std::sync::atomic::Ordering::Relaxed);
        }
    });
    if !complete.load(std::sync::atomic::Ordering::Relaxed) {
        if let Some(p) = a.phases.last_mut() {
            p["exhaustive"] = json!(false);
            p["what"] = json!(format!("{} (schedule cap of {cap} per program reached for some programs)", p["what"].as_str().unwrap_or("")));
        }
    }
    acc.merge(a);
    {
        // Preemption inside the critical section: the lock holder is suspended right after it
        // acquired the lock and the other actor runs until it needs the lock itself (and finds it
        // held). Equivalent to no preemption for code that waits for the lock; a `try_lock` whose
        // failure is swallowed (a skipped state change, wake-up or disconnect mark) shows here.
        let mut cs: Vec<SchedCase> = Vec::new();
        for program in programs(cx.tier.pick(3usize, 4usize), c11) {
            if c11 && !program.iter().any(|o| matches!(o, POp::Abort)) {
                continue;
            }
            for (fresh_waker, sample) in [(false, false), (true, true)] {
                cs.push(SchedCase {
                    gzip: None,
                    chunk: 2,
                    program: program.clone(),
                    cfg: CCfg { fresh_waker, spurious: 0, sample, extra_polls: 1, drop_after_polls: None, unwinding_drops: false, stop_at_eos: false },
                    choices: vec![],
                    cs_yield: true,
                });
            }
        }
        if c11 {
            for program in programs(3, false) {
                for k in [0u8, 1, 2] {
                    cs.push(SchedCase {
                        gzip: None,
                        chunk: 2,
                        program: program.clone(),
                        cfg: CCfg { fresh_waker: false, spurious: 0, sample: false, extra_polls: 0, drop_after_polls: Some(k), unwinding_drops: false, stop_at_eos: false },
                        choices: vec![],
                        cs_yield: true,
                    });
                }
            }
        }
        let phase = if c11 { "sched-abort-cs-preempt" } else { "sched-cs-preempt" };
        let mut a = par_units(cx, phase, &cs, false, "programs of <= 3 operations; the lock holder may also be preempted inside the critical section (right after acquiring the lock), so the other actor meets a held lock; all schedules with <= 2 preemptions (thorough: <= 4 operations, <= 3 preemptions; capped)", |cx, base, acc| {
            explore(cx, phase, base, cx.tier.pick(2usize, 3usize), cx.tier.pick(6000usize, 40_000usize), acc, c11);
        });
        if let Some(p) = a.phases.last_mut() {
            p["exhaustive"] = json!(false);
        }
        acc.merge(a);
    }
    if !c11 {
        // A large unread backlog (1 MiB and more queued before the consumer's first poll), then small
        // flushed and unflushed writes and the drop: all schedules with at most one preemption.
        let mut units: Vec<SchedCase> = Vec::new();
        for (chunk, backlog) in [(65_536usize, 1u32 << 20), (65_536, (1 << 20) + 65_537), (16_384, (1 << 20) + 5)] {
            for program in [
                vec![POp::WriteAll(backlog), POp::Write(1), POp::Flush, POp::Write(1)],
                vec![POp::WriteAll(backlog), POp::Write(1), POp::Flush],
                vec![POp::WriteAll(backlog), POp::Flush, POp::Write(3)],
                vec![POp::WriteAll(backlog), POp::Write(2), POp::Flush, POp::Write(2), POp::Flush, POp::Write(1)],
            ] {
                for fresh_waker in [false, true] {
                    units.push(SchedCase {
                        gzip: None,
                        chunk,
                        program: program.clone(),
                        cfg: CCfg { fresh_waker, spurious: 0, sample: false, extra_polls: 1, drop_after_polls: None, unwinding_drops: false, stop_at_eos: false },
                        choices: vec![], cs_yield: false,
                    });
                }
            }
        }
        // Dozens of chunks queued while the writer is still alive, a consumer that trusts
        // is_end_stream(): the writer may be dropped while the consumer is in the middle of them.
        let mut many: Vec<SchedCase> = Vec::new();
        for n in [17u32, 20, 40] {
            for program in [vec![POp::WriteAll(2 * n)], vec![POp::WriteAll(2 * n), POp::Write(1)]] {
                for (fresh_waker, stop_at_eos) in [(false, true), (true, true), (false, false)] {
                    many.push(SchedCase {
                        gzip: None,
                        chunk: 2,
                        program: program.clone(),
                        cfg: CCfg { fresh_waker, spurious: 0, sample: true, extra_polls: 0, drop_after_polls: None, unwinding_drops: false, stop_at_eos },
                        choices: vec![], cs_yield: false,
                    });
                }
            }
        }
        let mut a = par_units(cx, "sched-many-queued", &many, false, "17-40 chunks queued by one write_all with the writer alive, then the drop; consumer sampling is_end_stream() (trusting it or not); all schedules with <= 2 preemptions (capped)", |cx, base, acc| {
            explore(cx, "sched-many-queued", base, 2, 8000, acc, false);
        });
        if let Some(p) = a.phases.last_mut() {
            p["exhaustive"] = json!(false);
        }
        acc.merge(a);
        let mut a = par_units(cx, "sched-backlog", &units, false, "1 MiB and more written before the consumer's first poll (chunk 16-64 KiB), then small writes, flushes and the drop; all schedules with <= 1 preemption (capped)", |cx, base, acc| {
            explore(cx, "sched-backlog", base, 1, 400, acc, false);
        });
        if let Some(p) = a.phases.last_mut() {
            p["exhaustive"] = json!(false);
        }
        acc.merge(a);
    }
    if cx.tier == Tier::Thorough && !c11 {
        // The statement's bound: programs of 6 operations (preemption bound 2), and a second chunk
        // size with writes below, at and above it (programs of <= 4 operations).
        let mut deep: Vec<SchedCase> = Vec::new();
        for program in programs(6, false) {
            if program.len() < 6 {
                continue;
            }
            for cfg in configs() {
                if cfg.sample {
                    continue;
                }
                deep.push(SchedCase { gzip: None, chunk: 2, program: program.clone(), cfg, choices: vec![], cs_yield: false });
            }
        }
        for program in programs_over(&[POp::Write(1), POp::Write(2), POp::Write(4), POp::Write(7), POp::Flush, POp::Wait], 4) {
            for cfg in configs() {
                if cfg.sample {
                    continue;
                }
                deep.push(SchedCase { gzip: None, chunk: 3, program: program.clone(), cfg, choices: vec![], cs_yield: false });
            }
        }
        let complete = std::sync::atomic::AtomicBool::new(true);
        let mut a = par_units(cx, "sched-enumeration-deep", &deep, true, "all schedules with <= 3 preemptions for every 6-operation program (chunk 2) and every program of <= 4 operations over {write 1,2,4,7, flush, wait} with chunk 3", |cx, base, acc| {
            if !explore(cx, "sched-enumeration-deep", base, 3, 60_000, acc, false) {
                complete.store(false, std::sync::atomic::Ordering::Relaxed);
            }
        });
        if !complete.load(std::sync::atomic::Ordering::Relaxed) {
            if let Some(p) = a.phases.last_mut() {
                p["exhaustive"] = json!(false);
            }
        }
        acc.merge(a);
    }
    let n = cx.tier.pick(1u64, 20u64);
    let phase_r = if c11 { "sched-abort-random" } else { "sched-random" };
    acc.merge(par_proptest(cx, phase_r, if c11 { 60_000 * n } else { 150_000 * n }, move || random_strategy(c11), |c, acc| check(c, acc, c11).0));
    acc
}

/// C12 under interleavings: the consumer samples size_hint()/is_end_stream() before every poll
/// while the producer runs concurrently; only the hint / end-of-stream monitors can fail here.
pub fn check_c12(case: &SchedCase, acc: &mut Acc) -> (Check, Vec<ChoicePoint>) {
    let out = execute(case);
    let log = out.log.clone();
    let ctx = || format!("case {}; history: {}", serde_json::to_string(case).unwrap_or_default(), out.events.join(" | "));
    if let Some(v) = &out.violation {
        if v.sig.starts_with("internal:") {
            acc.internal_errors.push(format!("{}: {}", v.sig, v.msg));
        } else {
            acc.count("progress-or-abort-violation-seen(see C10/C11)");
        }
        return (Ok(()), log);
    }
    let r = check_eos_truthful(&out.trace, "scheduled-streaming")
        .and_then(|_| crate::drain::check_hints(&out.trace, false, "scheduled-streaming"))
        .map_err(|f| Fail { sig: f.sig, msg: format!("{}; {}", f.msg, ctx()) });
    if r.is_ok() {
        let changed = out.trace.steps.windows(2).any(|w| w[0].lower != w[1].lower || w[0].upper != w[1].upper);
        acc.note(
            if case.program.iter().any(|o| matches!(o, POp::Abort)) { "scheduled-streaming:abort" } else { "scheduled-streaming:clean-end" },
            changed && out.trace.steps.len() >= 3,
            fingerprint(&(&case.program, case.cfg, &case.choices, case.chunk, case.gzip)),
            || json!({"case": case, "history": out.events}),
        );
    }
    (r, log)
}

pub fn run_for_c12(cx: &Cx) -> Acc {
    let mut acc = Acc::new();
    let max_len = cx.tier.pick(3usize, 4usize);
    let mut units: Vec<SchedCase> = Vec::new();
    for program in programs(max_len, true) {
        for fresh_waker in [false, true] {
            units.push(SchedCase {
                gzip: None,
                chunk: 2,
                program: program.clone(),
                cfg: CCfg { fresh_waker, spurious: 1, sample: true, extra_polls: 1, drop_after_polls: None, unwinding_drops: false, stop_at_eos: false },
                choices: vec![], cs_yield: false,
            });
        }
    }
    let cap = cx.tier.pick(1500usize, 20_000usize);
    acc.merge(par_units(cx, "sched-sampled", &units, false, "schedules (<= 2 preemptions, capped) with size_hint/is_end_stream sampled before every poll", |cx, base, acc| {
        explore_with(cx, "sched-sampled", base, 2, cap, acc, &|c, a| check_c12(c, a));
    }));
    acc
}

/// C20 under interleavings: polls after the terminal event (in particular after an abort whose
/// error was consumed while the writer was still inside `abort()` / being dropped).
pub fn check_c20(case: &SchedCase, acc: &mut Acc) -> (Check, Vec<ChoicePoint>) {
    let out = execute(case);
    let log = out.log.clone();
    if let Some(v) = &out.violation {
        if v.sig.starts_with("internal:") {
            acc.internal_errors.push(format!("{}: {}", v.sig, v.msg));
        } else if !v.sig.starts_with("panic:") {
            acc.count("progress-or-abort-violation-seen(see C10/C11)");
            return (Ok(()), log);
        }
    }
    let r = check_terminated_stays(&out.trace, "scheduled-streaming").map_err(|f| Fail {
        sig: f.sig,
        msg: format!("{}; case {}; history: {}", f.msg, serde_json::to_string(case).unwrap_or_default(), out.events.join(" | ")),
    });
    if r.is_ok() {
        acc.note(
            if out.trace.ended_err().is_some() { "scheduled-streaming:abort" } else { "scheduled-streaming:clean-end" },
            !out.trace.extra.is_empty() && out.trace.ended_err().is_some(),
            fingerprint(&(&case.program, case.cfg, &case.choices, case.chunk, case.gzip)),
            || json!({"case": case, "history": out.events}),
        );
    }
    (r, log)
}

pub fn run_for_c20(cx: &Cx) -> Acc {
    let mut acc = Acc::new();
    let max_len = cx.tier.pick(3usize, 4usize);
    let mut units: Vec<SchedCase> = Vec::new();
    for program in programs(max_len, true) {
        for (gzip, chunk) in [(None, 2usize), (Some(1u32), 6)] {
            if gzip.is_some() && (program.len() > 2 || program.iter().any(|o| matches!(o, POp::Wait))) {
                continue;
            }
            units.push(SchedCase {
                gzip,
                chunk,
                program: program.clone(),
                cfg: CCfg { fresh_waker: false, spurious: 0, sample: false, extra_polls: 3, drop_after_polls: None, unwinding_drops: false, stop_at_eos: false },
                choices: vec![], cs_yield: false,
            });
        }
    }
    let cap = cx.tier.pick(1500usize, 20_000usize);
    acc.merge(par_units(cx, "sched-repoll", &units, false, "schedules (<= 2 preemptions, capped) with three polls after the terminal event", |cx, base, acc| {
        explore_with(cx, "sched-repoll", base, 2, cap, acc, &|c, a| check_c20(c, a));
    }));
    acc
}

pub fn run_c10(cx: &Cx) -> Acc {
    run_common(cx, false)
}

pub fn run_for_c11(cx: &Cx) -> Acc {
    run_common(cx, true)
}

pub fn replay(_cx: &Cx, _phase: &str, case: &Value, acc: &mut Acc, c11: bool) -> Check {
    let c: SchedCase = serde_json::from_value(case.clone()).map_err(|e| Fail {
        sig: "replay-decode".into(),
        msg: e.to_string(),
    })?;
    check(&c, acc, c11).0
}

pub fn replay_c10(cx: &Cx, phase: &str, case: &Value, acc: &mut Acc) -> Check {
    replay(cx, phase, case, acc, false)
}

pub fn health_c10(acc: &Acc) -> Vec<String> {
    let mut v = Vec::new();
    for l in ["clean:same-waker:parked", "clean:fresh-waker:parked"] {
        if acc.label(l) < 100 {
            v.push(format!("label {l} seen only {} times", acc.label(l)));
        }
    }
    v
}
