//! C07 — a short, long or failing entity stream never yields a complete-looking body.
//! Also hosts the fault-case machinery that C12 and C20 re-use.

use crate::drain::{DrainOpts, Ev, Trace};
use crate::engine::*;
use crate::ensure;
use crate::entity::{EntitySpec, Fault, FaultKind, HarnessError, Mtime, PStep, ReqSpec};
use crate::served::{serve_case, ServeFailure, Served};
use crate::util::fingerprint;
use proptest::prelude::*;
use serde::{Deserialize, Serialize};
use serde_json::{json, Value};

pub const META: Meta = Meta {
    id: "C07",
    level: "fault_enumeration",
    rule: "Fault enumeration: range lengths 1..=8 (thorough 10) x every composition of the range into <= 4 (thorough 5) chunks x fault kind {early end, error, 1-3 extra bytes in chunk i, one extra chunk, an error after the last byte, none} x every chunk index x filler {none, Pending before the fault, empty chunk before the fault, Pending / empty 'tail' steps between the last byte and the end or after-the-end fault} x entity stream variants {contiguous chunks, two-segment chunks, size_hint that counts data chunks, errors that repeat on every further poll} x response shape {200, single 206, multipart with 2-3 parts and the fault in each part, ranges apart and touching} x {small entity, entity of 2^64-1 bytes with the faulty range running to its very end in first- and suffix form}; ranges delivered in n one-byte chunks for every n up to 136 (thorough 300) with a fault right after the last byte; plus proptest over longer ranges, up to 8 parts and faults in several parts. Oracle: against the fault-free twin of the same case: delivered bytes are a prefix of the twin's body and never exceed the announced length; short/failing stream => first terminal event is an error (the injected one for entity errors), never a clean end; over-long stream => nothing beyond the announced length and an error when polled past it; fault-free with fillers => clean end with exact bytes. Non-trivial = the injected fault was actually reached by the drain; distinct by fingerprint of the case.",
    assumptions: &[
        "harness entity streams are fused after their end or error",
        "the consumer polls until a terminal event (a consumer that stops at Content-Length never sees an extra chunk)",
    ],
};

#[derive(Clone, Copy, Debug, PartialEq, Eq, Serialize, Deserialize)]
pub enum Shape {
    Full,
    Single,
    /// parts, all of the same length
    Multi(u8),
}

#[derive(Clone, Debug, Serialize, Deserialize)]
pub struct FCase {
    pub shape: Shape,
    /// chunk sizes of each requested range (their sum is the range length)
    pub chunks: Vec<u32>,
    /// insert this step before data chunk `.0` of every range
    pub filler: Option<(u32, PStep)>,
    pub faults: Vec<Fault>,
    pub extra_polls: usize,
    /// Empty / Pending steps after the last data byte of every range stream.
    #[serde(default)]
    pub tail: Vec<PStep>,
    /// segments per data chunk of the entity's (non-contiguous) Data type
    #[serde(default)]
    pub segments: u8,
    /// the entity streams report a size_hint that counts data chunks only
    #[serde(default)]
    pub counting_hint: bool,
    /// after an injected error the entity stream keeps failing instead of ending
    #[serde(default)]
    pub unfused_errors: bool,
    /// 0: a small entity. 1-2: an entity of 2^64-1 bytes whose last requested range runs to its very
    /// end (`first-` / `-suffix` form), the other ranges near its start. Not for `Shape::Full`.
    #[serde(default)]
    pub huge: u8,
    /// another request header that is satisfied / cannot apply: 1 If-Match: *, 2 If-None-Match:
    /// other tag, 3 a matching If-Range (with a Range), 4 If-Unmodified-Since later
    #[serde(default)]
    pub noop: u8,
    /// multipart: each range starts at the byte after the previous one's end (no gap between parts)
    #[serde(default)]
    pub adjacent: bool,
}

impl FCase {
    pub fn range_len(&self) -> u64 {
        self.chunks.iter().map(|c| *c as u64).sum()
    }
    pub fn parts(&self) -> usize {
        match self.shape {
            Shape::Multi(n) => n as usize,
            _ => 1,
        }
    }
    pub fn build(&self, with_faults: bool) -> (EntitySpec, ReqSpec) {
        let len = self.range_len();
        let mut plan = Vec::new();
        for (i, c) in self.chunks.iter().enumerate() {
            if let Some((at, step)) = self.filler {
                if at as usize == i {
                    plan.push(step);
                }
            }
            plan.push(PStep::Chunk(*c));
        }
        let to_end = |l: u64| if self.huge == 2 { format!("-{len}") } else { format!("{}-", l - len) };
        let (l, req) = match self.shape {
            Shape::Single if self.huge > 0 => (u64::MAX, ReqSpec::get().with("range", format!("bytes={}", to_end(u64::MAX)))),
            Shape::Multi(n) if self.huge > 0 => {
                let stride = if self.adjacent { len } else { len + 90 };
                let mut v: Vec<String> = (0..n as u64 - 1).map(|j| format!("{}-{}", 7 + j * stride, 7 + j * stride + len - 1)).collect();
                v.push(to_end(u64::MAX));
                (u64::MAX, ReqSpec::get().with("range", format!("bytes={}", v.join(","))))
            }
            Shape::Full => (len, ReqSpec::get()),
            Shape::Single => (len + 5, ReqSpec::get().with("range", format!("bytes=3-{}", len + 2))),
            Shape::Multi(n) => {
                let stride = if self.adjacent { len } else { len + 90 };
                let l = ((len + 90) * n as u64 + 1) * 2 + 100;
                let v: Vec<String> = (0..n as u64).map(|j| format!("{}-{}", 7 + j * stride, 7 + j * stride + len - 1)).collect();
                (l, ReqSpec::get().with("range", format!("bytes={}", v.join(","))))
            }
        };
        let req = match self.noop {
            1 => req.with("if-match", "*"),
            2 => req.with("if-none-match", "\"zzz\""),
            3 if req.has("range") => req.with("if-range", "\"c07\""),
            4 => req.with("if-unmodified-since", crate::reqgen::http_date(crate::reqgen::T0 + 86_400)),
            _ => req,
        };
        (
            EntitySpec {
                len: l,
                etag: if self.noop > 0 { Some(crate::util::Bs::s("\"c07\"")) } else { None },
                mtime: if self.noop == 4 { Mtime::At(crate::reqgen::T0, 0) } else { Mtime::None },
                headers: vec![],
                plan,
                faults: if with_faults { self.faults.clone() } else { vec![] },
                tail: self.tail.clone(),
                segments: self.segments,
                counting_hint: self.counting_hint,
                unfused_errors: self.unfused_errors,
            },
            req,
        )
    }
}

pub struct FaultRun {
    pub twin: Served,
    pub faulty: Served,
}

/// Runs the fault-free twin and the faulty case. `None` = aborted by a panic in serve (counted).
pub fn run_fault_case(c: &FCase, acc: &mut Acc) -> Option<FaultRun> {
    let opts = DrainOpts {
        extra_polls: c.extra_polls,
        ..Default::default()
    };
    let (e0, r0) = c.build(false);
    let (e1, r1) = c.build(true);
    let twin = match serve_case(&e0, &r0, DrainOpts { extra_polls: 0, ..opts }) {
        Ok(s) => s,
        Err(ServeFailure::Panic(_)) => {
            acc.count("aborted-by-panic-in-serve(see C13)");
            return None;
        }
        Err(_) => return None,
    };
    let faulty = match serve_case(&e1, &r1, opts) {
        Ok(s) => s,
        Err(_) => {
            acc.count("aborted-by-panic-in-serve(see C13)");
            return None;
        }
    };
    Some(FaultRun { twin, faulty })
}

fn all_data_delivered(t: &Trace<HarnessError>) -> u64 {
    t.steps
        .iter()
        .chain(t.extra.iter())
        .map(|s| if let Ev::Data(n) = s.ev { n as u64 } else { 0 })
        .sum()
}

pub fn fault_label(c: &FCase) -> String {
    let k = match c.faults.first().map(|f| f.kind) {
        None => "no-fault",
        Some(FaultKind::EndEarly) => "early-end",
        Some(FaultKind::Error) => "error",
        Some(FaultKind::ExtraByte) => "extra-byte",
        Some(FaultKind::ExtraChunk) => "extra-chunk",
        Some(FaultKind::ErrorAfterEnd) => "error-after-end",
    };
    let s = match c.shape {
        Shape::Full => "200".to_string(),
        Shape::Single => "206".to_string(),
        Shape::Multi(_) => format!("multipart-part{}", c.faults.first().map_or(0, |f| f.call) + 1),
    };
    format!("{k}:{s}{}", if c.faults.len() > 1 { ":multi-fault" } else { "" })
}

pub fn check(c: &FCase, acc: &mut Acc) -> Check {
    let Some(run) = run_fault_case(c, acc) else { return Ok(()) };
    let (twin, f) = (&run.twin, &run.faulty);
    let label = fault_label(c);
    let what = || format!("case {}; faulty trace: {}", serde_json::to_string(c).unwrap_or_default(), f.trace.summary());
    // The twin must be a clean, complete response (otherwise the case is not what we think).
    if !twin.trace.ended_cleanly() || twin.trace.panicked().is_some() {
        acc.count("twin-not-clean(see C01/C13)");
        return Ok(());
    }
    if f.head != twin.head {
        // headers never depend on stream behaviour
        acc.count("heads-differ");
    }
    if let Some(m) = f.trace.panicked() {
        if !f.trace.steps.iter().any(|s| matches!(s.ev, Ev::Panic(_))) {
            // panic only in the extra polls: C20's subject.
            acc.count("panic-after-terminal(see C20)");
        } else {
            return fail(
                format!("drain-panic:{label}"),
                format!("draining panicked before any terminal event: {m}; {}", what()),
            );
        }
    }
    let announced = f.head.content_length().ok().flatten().unwrap_or(f.hint0.0);
    let total = all_data_delivered(&f.trace);
    ensure!(
        f.trace.delivered_before_terminal() <= announced,
        format!("more-than-announced:{label}"),
        "delivered {} bytes, announced {announced}; {}",
        f.trace.delivered_before_terminal(),
        what()
    );
    let _ = total;
    let reached: Vec<Fault> = f.log.faults_reached.clone();
    let first = reached.first().copied();
    let content_corrupting = reached.iter().any(|x| x.kind == FaultKind::ExtraByte);
    if !content_corrupting {
        let d = f.trace.delivered_before_terminal() as usize;
        ensure!(
            d <= twin.trace.body.len() && f.trace.body[..d.min(f.trace.body.len())] == twin.trace.body[..d],
            format!("not-a-prefix:{label}"),
            "the {d} bytes delivered are not a prefix of the fault-free body ({} bytes); {}",
            twin.trace.body.len(),
            what()
        );
    }
    match first {
        None => {
            // No fault reached: must behave exactly like the twin.
            ensure!(
                f.trace.ended_cleanly() && f.trace.body == twin.trace.body,
                format!("fault-free-differs:{label}"),
                "no fault was reached but the body differs from the twin or did not end cleanly; {}",
                what()
            );
            acc.note(&format!("{label}:unreached"), false, 0, || json!({"case": c}));
            return Ok(());
        }
        Some(fl) => {
            let term = f.trace.terminal();
            match term {
                Some(Ev::Err(e)) => {
                    if fl.kind == FaultKind::ErrorAfterEnd {
                        ensure!(
                            *e == HarnessError::Injected(fl.call * 1000 + 999),
                            format!("wrong-error:{label}"),
                            "the entity failed after its last byte with Injected({}) but the body reported {e:?}; {}",
                            fl.call * 1000 + 999,
                            what()
                        );
                    } else if fl.kind == FaultKind::Error {
                        ensure!(
                            *e == HarnessError::Injected(fl.call * 1000 + fl.chunk),
                            format!("wrong-error:{label}"),
                            "the entity failed with Injected({}) but the body reported {e:?}; {}",
                            fl.call * 1000 + fl.chunk,
                            what()
                        );
                    } else {
                        ensure!(
                            matches!(e, HarnessError::Crate(_)),
                            format!("wrong-error:{label}"),
                            "fault {:?} must surface as an error made by the crate, got {e:?}; {}",
                            fl.kind,
                            what()
                        );
                    }
                }
                Some(Ev::End) => {
                    return fail(
                        format!("clean-end-after-fault:{label}"),
                        format!("the entity stream had fault {:?} but the body ended cleanly; {}", fl, what()),
                    )
                }
                other => {
                    return fail(
                        format!("no-terminal-after-fault:{label}"),
                        format!("the entity stream had fault {:?}; terminal event {:?}; {}", fl, other, what()),
                    )
                }
            }
            if matches!(fl.kind, FaultKind::EndEarly | FaultKind::Error) {
                ensure!(
                    f.trace.delivered_before_terminal() < announced,
                    format!("complete-looking:{label}"),
                    "a truncated stream delivered all {announced} announced bytes; {}",
                    what()
                );
            }
        }
    }
    // Nothing after the error that would make the response look longer than announced.
    ensure!(
        total <= announced,
        format!("more-than-announced-after-error:{label}"),
        "data events (including polls after the error) total {total} bytes, announced {announced}; {}",
        what()
    );
    acc.note(&label, true, fingerprint(c), || json!({"case": c, "trace": f.trace.summary()}));
    Ok(())
}

pub fn compositions(n: u32, max_parts: usize) -> Vec<Vec<u32>> {
    fn rec(n: u32, max_parts: usize, cur: &mut Vec<u32>, out: &mut Vec<Vec<u32>>) {
        if n == 0 {
            out.push(cur.clone());
            return;
        }
        if cur.len() == max_parts {
            return;
        }
        for k in 1..=n {
            cur.push(k);
            rec(n - k, max_parts, cur, out);
            cur.pop();
        }
    }
    let mut out = Vec::new();
    rec(n, max_parts, &mut Vec::new(), &mut out);
    out
}

pub fn shapes() -> Vec<(Shape, u32)> {
    // (shape, faulty call)
    vec![
        (Shape::Full, 0),
        (Shape::Single, 0),
        (Shape::Multi(2), 0),
        (Shape::Multi(2), 1),
        (Shape::Multi(3), 0),
        (Shape::Multi(3), 1),
        (Shape::Multi(3), 2),
    ]
}

/// Enumerates every fault case for one range length; calls `f` for each.
pub fn enumerate(len: u32, max_chunks: usize, extra_polls: &[usize], mut f: impl FnMut(FCase)) {
    for chunks in compositions(len, max_chunks) {
        let m = chunks.len() as u32;
        for (shape, call) in shapes() {
            let mut faults: Vec<Option<Fault>> = vec![None];
            for i in 0..m {
                for kind in [FaultKind::EndEarly, FaultKind::Error, FaultKind::ExtraByte] {
                    faults.push(Some(Fault { call, chunk: i, kind, extra: 0 }));
                }
                // several surplus bytes: the chunk that overflows may then straddle the announced
                // end and be followed by further (small) chunks
                for extra in [2u32, 3] {
                    faults.push(Some(Fault { call, chunk: i, kind: FaultKind::ExtraByte, extra }));
                }
            }
            faults.push(Some(Fault {
                call,
                chunk: 0,
                kind: FaultKind::ExtraChunk,
                extra: 0,
            }));
            faults.push(Some(Fault {
                call,
                chunk: 0,
                kind: FaultKind::ErrorAfterEnd,
                extra: 0,
            }));
            for fault in faults {
                let after_end = fault.map_or(true, |x| matches!(x.kind, FaultKind::ExtraChunk | FaultKind::ErrorAfterEnd));
                let at = fault.map_or(0, |x| if after_end { m - 1 } else { x.chunk });
                let tails: Vec<Vec<PStep>> = if after_end {
                    vec![vec![], vec![PStep::Pending], vec![PStep::Empty], vec![PStep::Pending, PStep::Empty, PStep::Pending]]
                } else {
                    vec![vec![]]
                };
                for filler in [None, Some((at, PStep::Pending)), Some((at, PStep::Empty))] {
                    for tail in &tails {
                        if filler.is_some() && !tail.is_empty() {
                            continue;
                        }
                        for &extra in extra_polls {
                            // contiguous chunks, and chunks handed over in two segments
                            for (segments, counting_hint, unfused_errors) in [(1u8, false, false), (2, false, false), (1, true, false), (1, false, true)] {
                                if (segments == 2 || counting_hint) && filler.is_some() {
                                    continue;
                                }
                                if segments == 2 && !tail.is_empty() {
                                    continue;
                                }
                                if unfused_errors && !matches!(fault, Some(Fault { kind: FaultKind::Error, .. })) {
                                    continue;
                                }
                                // the faulty range also as the to-the-end range of a 2^64-1 byte entity
                                let huges: &[u8] = if shape == Shape::Full || segments == 2 || counting_hint || unfused_errors { &[0] } else { &[0, 1, 2] };
                                for &huge in huges {
                                    if huge > 0 && matches!(shape, Shape::Multi(n) if call + 1 != n as u32) {
                                        continue; // only the last part runs to the end
                                    }
                                    if huge == 0 && matches!(shape, Shape::Multi(_)) && segments == 1 && !counting_hint && !unfused_errors {
                                        // the same with ranges that touch (0-9,10-19,...)
                                        f(FCase {
                                            shape,
                                            chunks: chunks.clone(),
                                            filler,
                                            faults: fault.into_iter().collect(),
                                            tail: tail.clone(),
                                            extra_polls: extra,
                                            segments,
                                            counting_hint,
                                            unfused_errors,
                                            huge,
                                            noop: 0,
                                            adjacent: true,
                                        });
                                    }
                                    f(FCase {
                                        shape,
                                        chunks: chunks.clone(),
                                        filler,
                                        faults: fault.into_iter().collect(),
                                        tail: tail.clone(),
                                        extra_polls: extra,
                                        segments,
                                        counting_hint,
                                        unfused_errors,
                                        huge,
                                        noop: 0,
                                        adjacent: false,
                                    });
                                }
                            }
                        }
                    }
                }
            }
        }
    }
}

pub fn random_strategy() -> BoxedStrategy<FCase> {
    (
        proptest::collection::vec(1u32..40, 1..8),
        prop_oneof![Just(Shape::Full), Just(Shape::Single), (2u8..=8).prop_map(Shape::Multi)],
        proptest::option::of((0u32..8, prop_oneof![Just(PStep::Pending), Just(PStep::Empty)])),
        proptest::collection::vec(
            (0u32..8, 0u32..8, prop_oneof![Just(FaultKind::EndEarly), Just(FaultKind::Error), Just(FaultKind::ExtraByte), Just(FaultKind::ExtraChunk), Just(FaultKind::ErrorAfterEnd)], 0u32..4),
            0..3,
        ),
        0usize..=4,
        proptest::collection::vec(prop_oneof![Just(PStep::Pending), Just(PStep::Empty)], 0..3),
        0u8..4,
        proptest::bool::weighted(0.3),
        proptest::bool::weighted(0.3),
        (prop_oneof![3 => Just(0u8), 1 => Just(1u8), 1 => Just(2u8)], prop_oneof![4 => Just(0u8), 1 => 1u8..=4]),
    )
        .prop_map(|(chunks, shape, filler, faults, extra_polls, tail, segments, counting_hint, unfused_errors, (huge, noop))| {
            let parts = match shape {
                Shape::Multi(n) => n as u32,
                _ => 1,
            };
            let m = chunks.len() as u32;
            let mut fs: Vec<Fault> = faults
                .into_iter()
                .map(|(call, chunk, kind, extra)| Fault {
                    call: call % parts,
                    chunk: chunk % m,
                    kind,
                    extra,
                })
                .collect();
            fs.sort_by_key(|f| f.call);
            fs.dedup_by_key(|f| f.call);
            FCase {
                shape,
                filler: filler.map(|(i, s)| (i % m, s)),
                chunks,
                faults: fs,
                tail,
                segments,
                counting_hint,
                unfused_errors,
                extra_polls,
                huge: if shape == Shape::Full { 0 } else { huge },
                noop,
                adjacent: extra_polls % 2 == 1,
            }
        })
        .boxed()
}

pub fn run(cx: &Cx) -> Acc {
    let mut acc = Acc::new();
    let max_len = cx.tier.pick(8u32, 10u32);
    let max_chunks = cx.tier.pick(4usize, 5usize);
    let units: Vec<u32> = (1..=max_len).collect();
    acc.merge(par_units(cx, "enumeration", &units, true, "every (composition, shape, fault kind, fault position, filler) for each range length", |cx, &len, acc| {
        enumerate(len, max_chunks, &[1], |c| {
            acc.run_case(cx, "enumeration", &c, |acc| check(&c, acc));
        });
    }));
    let n = cx.tier.pick(1u64, 20u64);
    let bound = cx.tier.pick(136u32, 300u32);
    acc.merge(par_units(cx, "many-chunks", &[bound], true, "a range delivered in n one-byte chunks for every n up to the bound, fault right after the last byte or at the last chunk, every response shape", |cx, &b, acc| {
        many_chunks_cases(b, |c| {
            acc.run_case(cx, "many-chunks", &c, |acc| check(&c, acc));
        });
    }));
    acc.merge(par_proptest(cx, "random", 100_000 * n, random_strategy, |c, acc| check(c, acc)));
    acc
}

/// The *number* of chunks a range is delivered in: 1-byte chunks, every count up to the bound, with
/// a fault right after the last byte (and one mid-stream), for every response shape.
pub fn many_chunks_cases(max: u32, mut f: impl FnMut(FCase)) {
    for n in 1..=max {
        for (shape, call) in [(Shape::Full, 0u32), (Shape::Single, 0), (Shape::Multi(2), 0), (Shape::Multi(2), 1)] {
            for kind in [FaultKind::ExtraChunk, FaultKind::ErrorAfterEnd, FaultKind::EndEarly] {
                f(FCase {
                    shape,
                    chunks: vec![1; n as usize],
                    filler: None,
                    faults: vec![Fault { call, chunk: if kind == FaultKind::EndEarly { n - 1 } else { 0 }, kind, extra: 0 }],
                    extra_polls: 1,
                    tail: vec![],
                    segments: 1,
                    counting_hint: false,
                    unfused_errors: false,
                    huge: 0,
                    noop: 0,
                    adjacent: false,
                });
            }
        }
    }
}

pub fn replay(_cx: &Cx, _phase: &str, case: &Value, acc: &mut Acc) -> Check {
    let c: FCase = serde_json::from_value(case.clone()).map_err(|e| Fail {
        sig: "replay-decode".into(),
        msg: e.to_string(),
    })?;
    check(&c, acc)
}

pub fn health(acc: &Acc) -> Vec<String> {
    let mut v = Vec::new();
    for k in ["early-end", "error", "extra-byte", "extra-chunk", "error-after-end"] {
        for s in ["200", "206", "multipart-part1", "multipart-part2", "multipart-part3"] {
            let l = format!("{k}:{s}");
            if acc.label(&l) < 10 {
                v.push(format!("label {l} seen only {} times", acc.label(&l)));
            }
        }
    }
    v
}
