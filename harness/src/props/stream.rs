//! Streaming-body engine (C08, C09, C11, C17) — and its traces for C12 / C20.

use crate::engine::*;
use serde_json::Value;

pub fn run_for_c12_c20(_cx: &Cx, _c20: bool) -> Acc {
    Acc::new()
}

pub fn replay_for_c12_c20(_cx: &Cx, _phase: &str, _case: &Value, _acc: &mut Acc, _c20: bool) -> Check {
    fail("replay-decode", "unknown phase")
}
