//! Streaming-body engine: interprets generated write/flush/poll/abort/drop histories against
//! `streaming_body(..).build()` and an in-memory model. Serves C08, C09, C11 (sequential part),
//! and produces traces for C12 / C20.

use crate::drain::{check_eos_truthful, check_hints, check_terminated_stays, CountingWaker, Ev, Step, Trace};
use crate::engine::*;
use crate::entity::HarnessError;
use crate::oracle::inflate::{gunzip_prefix, Status};
use crate::util::{content_byte, fingerprint};
use bytes::Bytes;
use http_body::Body as _;
use proptest::collection::vec;
use proptest::prelude::*;
use serde::{Deserialize, Serialize};
use serde_json::{json, Value};
use std::io::{Read, Write};
use std::pin::Pin;
use std::sync::atomic::{AtomicUsize, Ordering};
use std::sync::Arc;
use std::task::{Context, Poll, Waker};

pub type SBody = http_serve::Body<Bytes, HarnessError>;
pub type SWriter = http_serve::BodyWriter<Bytes, HarnessError>;

#[derive(Clone, Copy, Debug, PartialEq, Eq, Serialize, Deserialize)]
pub enum Op {
    Write(u32),
    WriteAll(u32),
    /// `write_vectored` with two slices of these lengths
    WriteV(u32, u32),
    Flush,
    FlushThenDrain,
    PollUntilPending,
    Poll(u8),
    Sample,
    Abort,
    DropBody,
}

#[derive(Clone, Copy, Debug, PartialEq, Eq, Serialize, Deserialize)]
pub enum Payload {
    /// incompressible
    Hash,
    /// highly compressible
    Runs,
    Mixed,
    Zeros,
}

#[derive(Clone, Debug, Serialize, Deserialize)]
pub struct SCase {
    /// `Some(level)` = gzip negotiated with that level (1..=9)
    pub gzip: Option<u32>,
    pub chunk: usize,
    pub payload: Payload,
    pub ops: Vec<Op>,
    pub extra_polls: usize,
    /// the consumer behaves like hyper: once `is_end_stream()` is true it does not poll again
    #[serde(default)]
    pub stop_at_eos: bool,
    /// the final drop of the writer happens while its thread is unwinding from a panic
    #[serde(default)]
    pub unwind_writer_drop: bool,
    /// `DropBody` happens while the consumer's thread is unwinding from a panic
    #[serde(default)]
    pub unwind_body_drop: bool,
}

impl Default for SCase {
    fn default() -> SCase {
        SCase { gzip: None, chunk: 1, payload: Payload::Hash, ops: vec![], extra_polls: 0, stop_at_eos: false, unwind_writer_drop: false, unwind_body_drop: false }
    }
}

/// Drops `x` while the current thread is unwinding from a panic (`std::thread::panicking()` is true
/// inside its destructor), as happens to locals of a handler that panics.
pub fn drop_while_unwinding<T>(x: T) {
    let _ = std::panic::catch_unwind(std::panic::AssertUnwindSafe(move || {
        let _x = x;
        panic!("intentional panic of the harness: drop during unwinding");
    }));
}

pub fn payload_byte(p: Payload, i: u64) -> u8 {
    match p {
        Payload::Hash => content_byte(i),
        Payload::Runs => (i / 97) as u8,
        Payload::Mixed => {
            if (i / 512) % 2 == 0 {
                content_byte(i)
            } else {
                (i / 64) as u8
            }
        }
        Payload::Zeros => 0,
    }
}

pub fn build(gzip: Option<u32>, chunk: usize) -> (crate::entity::RespHead, SBody, Option<SWriter>) {
    let mut b = http::Request::builder().method("GET").uri("/");
    if gzip.is_some() {
        b = b.header("accept-encoding", "gzip");
    }
    let req = b.body(()).unwrap();
    let mut sb = http_serve::streaming_body(&req).with_chunk_size(chunk);
    if let Some(l) = gzip {
        sb = sb.with_gzip_level(l);
    }
    let (resp, w) = sb.build::<Bytes, HarnessError>();
    let head = crate::entity::RespHead::of(&resp);
    (head, resp.into_body(), w)
}

pub struct SRun {
    pub trace: Trace<HarnessError>,
    pub accepted: Vec<u8>,
    pub received: Vec<u8>,
    /// Categorised problems: prefixes `w:` (writer behaviour on a live body / delivery), `gz:`
    /// (gzip validity), `abort:`, `drop:`, `internal:`.
    pub issues: Vec<Fail>,
    pub aborted: bool,
    pub body_dropped: bool,
    pub partial_write: bool,
    pub chunk_crossed: bool,
    pub poll_between_ops: bool,
    pub mid_flush: bool,
    pub accepted_after_drop: usize,
    pub frames_ge2: bool,
}

struct Interp {
    body: Option<Pin<Box<SBody>>>,
    cw: Arc<CountingWaker>,
    waker: Waker,
    t: Trace<HarnessError>,
    terminal_seen: bool,
    received: Vec<u8>,
    stop_at_eos: bool,
}

impl Interp {
    /// One sample (+ poll if `poll`). Returns the event.
    fn step(&mut self, poll: bool) -> Option<Ev<HarnessError>> {
        let body = self.body.as_mut()?;
        let h = body.size_hint();
        let eos = body.is_end_stream();
        let ev = if poll && self.stop_at_eos && eos && !self.terminal_seen {
            // a consumer that honours is_end_stream() (hyper) takes this as the end and never polls
            Ev::End
        } else if poll {
            let mut cx = Context::from_waker(&self.waker);
            match crate::panics::guard(|| body.as_mut().poll_frame(&mut cx)) {
                Err(m) => Ev::Panic(m),
                Ok(Poll::Pending) => Ev::Pending,
                Ok(Poll::Ready(None)) => Ev::End,
                Ok(Poll::Ready(Some(Err(e)))) => Ev::Err(e),
                Ok(Poll::Ready(Some(Ok(f)))) => match f.into_data() {
                    Ok(d) => {
                        self.received.extend_from_slice(&d);
                        if !self.terminal_seen {
                            self.t.frames += 1;
                            if d.is_empty() {
                                self.t.empty_frames += 1;
                            }
                        }
                        self.t.delivered += d.len() as u64;
                        Ev::Data(d.len())
                    }
                    Err(_) => Ev::Data(0),
                },
            }
        } else {
            Ev::Pending // a pure sample is recorded like a poll that had nothing to report
        };
        let st = Step {
            lower: h.lower(),
            upper: h.upper(),
            eos,
            ev: ev.clone(),
        };
        if self.terminal_seen {
            self.t.extra.push(st);
        } else {
            let term = matches!(ev, Ev::End | Ev::Err(_));
            self.t.steps.push(st);
            if term {
                self.terminal_seen = true;
            }
        }
        if poll {
            Some(ev)
        } else {
            None
        }
    }

    /// Polls until Pending / terminal / panic; returns the last event.
    fn poll_until_pending(&mut self) -> Option<Ev<HarnessError>> {
        // Every data frame carries at least one byte of a finite history, so this ends; the bound
        // only guards against a body that yields empty frames forever.
        let mut last;
        let mut empties = 0u32;
        loop {
            let ev = self.step(true)?;
            let stop = !matches!(ev, Ev::Data(_));
            if matches!(ev, Ev::Data(0)) {
                empties += 1;
            }
            last = Some(ev);
            if stop || empties > 100_000 {
                break;
            }
        }
        last
    }
}

fn issue(v: &mut Vec<Fail>, sig: &str, msg: String) {
    if !v.iter().any(|f| f.sig == sig) {
        v.push(Fail { sig: sig.into(), msg });
    }
}

pub fn execute(c: &SCase) -> SRun {
    execute_with(c, false)
}

/// `light`: skip the gzip decoding oracles (for C12 / C20, which only need the trace).
pub fn execute_with(c: &SCase, light: bool) -> SRun {
    let (_head, body, w) = build(c.gzip, c.chunk);
    let mut w = w;
    let cw = Arc::new(CountingWaker(AtomicUsize::new(0)));
    let mut it = Interp {
        body: Some(Box::pin(body)),
        waker: Waker::from(cw.clone()),
        cw,
        t: Trace {
            steps: vec![],
            extra: vec![],
            body: vec![],
            delivered: 0,
            frames: 0,
            empty_frames: 0,
            pendings: 0,
            capped: false,
            stalled: false,
        },
        terminal_seen: false,
        received: Vec::new(),
        stop_at_eos: c.stop_at_eos,
    };
    let gz = c.gzip.is_some();
    let decode = gz && !light;
    let mut issues = Vec::new();
    let mut accepted: Vec<u8> = Vec::new();
    let mut pos = 0u64;
    let mut aborted = false;
    let mut body_dropped = false;
    let mut failed_after_drop = false;
    let mut accepted_after_drop = 0usize;
    let mut model_buf = 0usize; // raw writer's partial chunk, per the model
    let mut partial_write = false;
    let mut chunk_crossed = false;
    let mut poll_between_ops = false;
    let mut mid_flush = false;
    let mut producer_ops_seen = 0;
    let mut polled_since_producer_op = false;
    let mut unflushed_since_drop = false;
    let mut gz_dirty = true; // the gzip header is pending until the first flush
    let mut since_flush = 0usize;
    let mut stop_early = false;
    let mut abort_at_step: Option<usize> = None;

    for (idx, op) in c.ops.iter().enumerate() {
        let live = !aborted && !body_dropped;
        match *op {
            Op::Write(_) | Op::WriteAll(_) | Op::WriteV(..) => {
                let (n, split) = match *op {
                    Op::Write(n) | Op::WriteAll(n) => (n, None),
                    Op::WriteV(a, b) => (a + b, Some(a as usize)),
                    _ => unreachable!(),
                };
                let all = matches!(op, Op::WriteAll(_));
                if producer_ops_seen > 0 && polled_since_producer_op {
                    poll_between_ops = true;
                }
                producer_ops_seen += 1;
                polled_since_producer_op = false;
                let buf: Vec<u8> = (0..n as u64).map(|i| crate::props::stream::payload_byte(c.payload, pos + i)).collect();
                let Some(wr) = w.as_mut() else { continue };
                let r = crate::panics::guard(|| match split {
                    Some(a) => wr.write_vectored(&[std::io::IoSlice::new(&buf[..a]), std::io::IoSlice::new(&buf[a..])]),
                    None if all => wr.write_all(&buf).map(|_| buf.len()),
                    None => wr.write(&buf),
                });
                match r {
                    Err(m) => issue(&mut issues, "w:write-panic", format!("op {idx} {op:?} panicked: {m}")),
                    Ok(Ok(_)) if all && n == 0 => {} // write_all(&[]) never reaches the writer
                    Ok(Ok(k)) => {
                        if aborted {
                            issue(&mut issues, "abort:write-ok-after-abort", format!("op {idx} {op:?} succeeded after abort"));
                        }
                        if failed_after_drop {
                            issue(&mut issues, "drop:success-after-failure", format!("op {idx} {op:?} succeeded although an earlier call already failed after the body was dropped"));
                        }
                        if k > buf.len() {
                            issue(&mut issues, "w:write-accepted-too-much", format!("op {idx} write of {n} bytes returned {k}"));
                        }
                        if live && n > 0 && k == 0 {
                            issue(&mut issues, "w:write-accepted-zero", format!("op {idx} write of {n} bytes to a live body accepted 0 bytes"));
                        }
                        let k = k.min(buf.len());
                        if k < buf.len() {
                            partial_write = true;
                        }
                        accepted.extend_from_slice(&buf[..k]);
                        pos += k as u64;
                        if k > 0 {
                            gz_dirty = true;
                        }
                        since_flush += k;
                        if body_dropped {
                            accepted_after_drop += k;
                            if !gz && model_buf + k >= c.chunk {
                                issue(
                                    &mut issues,
                                    "drop:chunk-completing-write-ok",
                                    format!("op {idx} {op:?} completed a chunk after the body was dropped and still returned Ok"),
                                );
                            }
                            if k > 0 {
                                unflushed_since_drop = true;
                            }
                        }
                        if !gz {
                            if model_buf + k >= c.chunk {
                                chunk_crossed = true;
                            }
                            model_buf = (model_buf + k) % c.chunk;
                        }
                    }
                    Ok(Err(e)) => {
                        if live {
                            issue(&mut issues, "w:write-failed-live", format!("op {idx} {op:?} on a live body failed: {e}"));
                        }
                        if body_dropped {
                            failed_after_drop = true;
                        }
                    }
                }
            }
            Op::Flush | Op::FlushThenDrain => {
                if producer_ops_seen > 0 && polled_since_producer_op {
                    poll_between_ops = true;
                }
                producer_ops_seen += 1;
                polled_since_producer_op = false;
                if let Some(wr) = w.as_mut() {
                    match crate::panics::guard(|| wr.flush()) {
                        Err(m) => issue(&mut issues, "w:flush-panic", format!("op {idx} flush panicked: {m}")),
                        Ok(Ok(())) => {
                            if aborted {
                                issue(&mut issues, "abort:flush-ok-after-abort", format!("op {idx} flush succeeded after abort"));
                            }
                            if failed_after_drop {
                                issue(&mut issues, "drop:success-after-failure", format!("op {idx} flush succeeded although an earlier call already failed after the body was dropped"));
                            }
                            if body_dropped && ((gz && gz_dirty) || (!gz && (unflushed_since_drop || model_buf > 0))) {
                                issue(
                                    &mut issues,
                                    "drop:flush-ok-with-unflushed-bytes",
                                    format!("op {idx} flush returned Ok after the body was dropped although accepted bytes were still unflushed"),
                                );
                            }
                            model_buf = 0;
                            gz_dirty = false;
                            if !matches!(op, Op::FlushThenDrain) {
                                since_flush = 0;
                            }
                            if !accepted.is_empty() && idx + 1 < c.ops.len() {
                                mid_flush = true;
                            }
                        }
                        Ok(Err(e)) => {
                            if live {
                                issue(&mut issues, "w:flush-failed-live", format!("op {idx} flush on a live body failed: {e}"));
                            }
                            if body_dropped {
                                failed_after_drop = true;
                            }
                        }
                    }
                }
                if matches!(op, Op::FlushThenDrain) && it.body.is_some() {
                    polled_since_producer_op = true;
                    let last = it.poll_until_pending();
                    if live {
                        if gz && !decode {
                        } else if gz {
                            let d = gunzip_prefix(&it.received);
                            if matches!(d.status, Status::Invalid(_)) || d.out != accepted {
                                // Diagnose: does a second flush make everything decodable? With more than
                                // 32 KiB written since the last flush this is the known incomplete sync
                                // flush of the pinned flate2 (see KNOWN_FINDINGS.txt); anything else is new.
                                let missing = accepted.len().saturating_sub(d.out.len());
                                let mut second_fixes = false;
                                if let Some(wr) = w.as_mut() {
                                    if wr.flush().is_ok() {
                                        it.poll_until_pending();
                                        let d2 = gunzip_prefix(&it.received);
                                        second_fixes = !matches!(d2.status, Status::Invalid(_)) && d2.out == accepted;
                                    }
                                }
                                let known_shape = second_fixes && since_flush >= 32_768 && missing < 65_536 && accepted.starts_with(&d.out);
                                issue(
                                    &mut issues,
                                    if known_shape { "gz:flush-incomplete-after-large-write" } else { "gz:flush-not-decodable" },
                                    format!(
                                        "after flush (op {idx}) a streaming decoder fed the {} bytes available reproduces {} of the {} bytes written (status {:?}; {} bytes written since the previous flush; a second flush {} it)",
                                        it.received.len(),
                                        d.out.len(),
                                        accepted.len(),
                                        d.status,
                                        since_flush,
                                        if second_fixes { "repairs" } else { "does not repair" }
                                    ),
                                );
                                stop_early = true;
                            }
                        } else if it.received != accepted {
                            issue(
                                &mut issues,
                                "w:flush-not-visible",
                                format!(
                                    "after flush (op {idx}) the consumer had {} bytes available without further producer action, {} were accepted",
                                    it.received.len(),
                                    accepted.len()
                                ),
                            );
                        }
                        if !matches!(last, Some(Ev::Pending)) {
                            issue(&mut issues, "w:terminal-while-writer-live", format!("op {idx}: body reported {:?} while the writer is alive", last));
                        }
                    }
                }
            }
            Op::PollUntilPending => {
                polled_since_producer_op = true;
                it.poll_until_pending();
            }
            Op::Poll(k) => {
                polled_since_producer_op = true;
                for _ in 0..k {
                    if it.step(true).is_none() {
                        break;
                    }
                }
            }
            Op::Sample => {
                it.step(false);
            }
            Op::Abort => {
                if let Some(wr) = w.as_mut() {
                    if !aborted {
                        wr.abort(HarnessError::Injected(7000 + idx as u32));
                        aborted = true;
                        if !it.terminal_seen && it.body.is_some() {
                            abort_at_step = Some(it.t.steps.len());
                        }
                    }
                }
            }
            Op::DropBody => {
                let b = it.body.take();
                let had = b.is_some();
                if c.unwind_body_drop {
                    drop_while_unwinding(b);
                } else {
                    drop(b);
                }
                if had {
                    body_dropped = true;
                    if !gz {
                        unflushed_since_drop = model_buf > 0;
                    }
                }
            }
        }
        if matches!(op, Op::FlushThenDrain) {
            since_flush = 0;
        }
        if stop_early {
            break;
        }
        // Prefix invariant (identity coding): what was received is a prefix of what was accepted.
        if !gz && !(it.received.len() <= accepted.len() && accepted[..it.received.len()] == it.received[..]) {
            issue(
                &mut issues,
                "w:not-a-prefix",
                format!("after op {idx} the {} bytes received are not a prefix of the {} bytes accepted", it.received.len(), accepted.len()),
            );
        }
    }

    // Drop the writer, then drain.
    let had_abort_or_drop = c.ops.iter().any(|o| matches!(o, Op::Abort | Op::DropBody));
    if c.unwind_writer_drop {
        drop_while_unwinding(w.take());
    } else {
        drop(w.take());
    }
    if it.body.is_some() {
        if !it.terminal_seen {
            let last = it.poll_until_pending();
            if matches!(last, Some(Ev::Pending)) {
                it.t.stalled = true;
                issue(
                    &mut issues,
                    if aborted { "abort:pending-after-writer-gone" } else { "w:pending-after-writer-dropped" },
                    format!("the writer is gone but the body returned Pending (woken {} times): the consumer would sleep forever", it.cw.0.load(Ordering::SeqCst)),
                );
            }
        }
        for _ in 0..c.extra_polls {
            it.step(true);
        }
    }
    let frames_ge2 = it.t.frames >= 2;
    if it.t.empty_frames > 0 {
        issue(&mut issues, "w:empty-frame", format!("the body yielded {} empty data frame(s)", it.t.empty_frames));
    }
    let received = it.received.clone();
    if !had_abort_or_drop && it.body.is_some() && !stop_early {
        match it.t.terminal() {
            Some(Ev::End) => {}
            other => issue(&mut issues, "w:not-clean-end", format!("writer dropped without abort but the terminal event is {:?}", other)),
        }
        if gz && !decode {
        } else if gz {
            let d = gunzip_prefix(&received);
            match d.status {
                Status::Complete { consumed, crc_ok, isize_ok } => {
                    if !crc_ok {
                        issue(&mut issues, "gz:crc", "gzip trailer CRC-32 does not match the decompressed data".into());
                    }
                    if !isize_ok {
                        issue(&mut issues, "gz:isize", "gzip trailer ISIZE does not match the decompressed length".into());
                    }
                    if consumed != received.len() {
                        issue(&mut issues, "gz:trailing-bytes", format!("{} bytes follow the gzip member", received.len() - consumed));
                    }
                    if d.out != accepted {
                        issue(
                            &mut issues,
                            "gz:content",
                            format!("gzip member decompresses to {} bytes, {} were written (first difference at {:?})", d.out.len(), accepted.len(), d.out.iter().zip(accepted.iter()).position(|(a, b)| a != b)),
                        );
                    }
                }
                Status::NeedMore => issue(&mut issues, "gz:truncated", format!("the {} body bytes are an incomplete gzip member ({} bytes decoded, {} written)", received.len(), d.out.len(), accepted.len())),
                Status::Invalid(m) => issue(&mut issues, "gz:invalid", format!("body is not a valid gzip member: {m}")),
            }
            // Cross-check the oracle itself against flate2's decoder.
            let mut z = flate2::read::MultiGzDecoder::new(&received[..]);
            let mut out2 = Vec::new();
            let r2 = z.read_to_end(&mut out2);
            let ours_ok = !issues.iter().any(|i| i.sig.starts_with("gz:"));
            if ours_ok != (r2.is_ok() && out2 == accepted) {
                issue(
                    &mut issues,
                    "internal:decoders-disagree",
                    format!("own decoder says ok={ours_ok}, flate2 says {:?} with {} bytes", r2.map(|_| ()), out2.len()),
                );
            }
        } else if received != accepted {
            issue(
                &mut issues,
                "w:final-mismatch",
                format!("{} bytes were accepted, {} were delivered (first difference at {:?})", accepted.len(), received.len(), received.iter().zip(accepted.iter()).position(|(a, b)| a != b)),
            );
        }
    }
    // Abort: the next terminal event is the aborting error.
    // (only if the abort was actually executed: a history cut short by a flush diagnosis is not judged)
    if let Some(ai) = c.ops.iter().position(|o| matches!(o, Op::Abort)).filter(|_| aborted && !stop_early) {
        let drop_first = c.ops[..ai].iter().any(|o| matches!(o, Op::DropBody));
        let terminal_before = false;
        if !drop_first && it.body.is_some() && !terminal_before {
            match it.t.terminal() {
                Some(Ev::Err(HarnessError::Injected(id))) if *id == 7000 + ai as u32 => {}
                other => issue(&mut issues, "abort:terminal-not-the-error", format!("after abort the terminal event is {:?}, expected Err(Injected({}))", other, 7000 + ai)),
            }
            if let Some(from) = abort_at_step {
                if let Some((i, _)) = it.t.steps.iter().enumerate().skip(from).find(|(_, s)| s.eos) {
                    issue(
                        &mut issues,
                        "abort:eos-while-error-pending",
                        format!("is_end_stream() was true at step {i}, after the abort and before the error was delivered"),
                    );
                }
            }
            // An exact size hint of zero is the other way a body says "nothing more will come"
            // (hyper then never polls it): not while the abort error is undelivered.
            if let Some(from) = abort_at_step {
                if let Some((i, _)) = it.t.steps.iter().enumerate().skip(from).find(|(_, s)| s.upper == Some(0)) {
                    issue(
                        &mut issues,
                        "abort:empty-size-hint-while-error-pending",
                        format!("size_hint() was exactly 0 at step {i}, after the abort and before the error was delivered"),
                    );
                }
            }
            if decode {
                let d = gunzip_prefix(&received);
                if matches!(d.status, Status::Invalid(_)) || !accepted.starts_with(&d.out) {
                    issue(&mut issues, "abort:not-a-prefix", "bytes delivered before the abort error do not decode to a prefix of the bytes written".into());
                }
            }
        }
    }
    SRun {
        trace: it.t,
        accepted,
        received,
        issues,
        aborted,
        body_dropped,
        partial_write,
        chunk_crossed,
        poll_between_ops,
        mid_flush,
        accepted_after_drop,
        frames_ge2,
    }
}

pub fn first_issue(run: &SRun, prefixes: &[&str]) -> Option<Fail> {
    run.issues.iter().find(|i| prefixes.iter().any(|p| i.sig.starts_with(p))).cloned()
}

fn internal(run: &SRun) -> Option<Fail> {
    first_issue(run, &["internal:"])
}

// ------------------------------------------------------------------------------------------------
// Generators.

pub fn sizes_for(c: usize) -> Vec<u32> {
    let c = c as u32;
    let mut v = vec![0, 1, c.saturating_sub(1), c, c + 1, 2 * c, 3 * c];
    v.sort();
    v.dedup();
    v
}

pub const RAW_CHUNKS: &[usize] = &[1, 2, 3, 4, 7, 4096, 65536];
pub const GZ_CHUNKS: &[usize] = &[1, 2, 3, 5, 10, 18, 64, 4096, 65536];

/// Chunk sizes: the fixed list (tiny sizes where every boundary effect shows within a few bytes,
/// and the two common large ones), neighbours of powers of two and of round decimal numbers, and
/// arbitrary sizes drawn log-uniformly up to 2^17.
pub fn chunk_strategy(gzip: bool) -> BoxedStrategy<usize> {
    let chunks: &'static [usize] = if gzip { GZ_CHUNKS } else { RAW_CHUNKS };
    prop_oneof![
        5 => proptest::sample::select(chunks),
        2 => (proptest::sample::select(vec![8usize, 16, 64, 256, 1000, 1024, 1500, 2048, 4096, 8192, 10_000, 16_384, 32_768, 65_536, 100_000]), 0usize..3).prop_map(|(b, d)| b + d - 1),
        3 => (0u32..17, any::<u32>()).prop_map(|(k, r)| ((1usize << k) + (r as usize % (1usize << k))).max(1)),
    ]
    .boxed()
}

pub fn op_strategy(chunk: usize, with_faults: bool, gzip: bool) -> BoxedStrategy<Op> {
    let size = if gzip {
        prop_oneof![4 => proptest::sample::select(vec![0u32, 1, 2, 7, 100, 1000, 5000]), 1 => 0u32..20_000].boxed()
    } else {
        let c = chunk as u32;
        prop_oneof![
            4 => proptest::sample::select(sizes_for(chunk)),
            1 => 0u32..(3 * c + 2).min(200_000),
            // nearly a full chunk, and small pieces (a fraction of a chunk): partial chunks that
            // pile up in the queue and top-ups that do or do not fit
            2 => (1u32..=(c / 8).max(1)).prop_map(move |k| c.saturating_sub(k).max(1)),
            2 => 1u32..=(c / 8).max(2),
            1 => 1u32..=(c / 64).max(2),
            // hundreds of chunks in one go (long back-to-back deliveries)
            1 => (100u32..700).prop_map(move |k| c.saturating_mul(k).min(150_000)),
        ]
        .boxed()
    };
    let base = prop_oneof![
        4 => size.clone().prop_map(Op::Write),
        3 => size.clone().prop_map(Op::WriteAll),
        1 => (size.clone(), size).prop_map(|(a, b)| Op::WriteV(a, b)),
        2 => Just(Op::Flush),
        2 => Just(Op::FlushThenDrain),
        1 => Just(Op::PollUntilPending),
        1 => prop_oneof![3 => 1u8..4, 1 => 5u8..=120].prop_map(Op::Poll),
        1 => Just(Op::Sample),
    ];
    if with_faults {
        prop_oneof![12 => base, 1 => Just(Op::Abort), 1 => Just(Op::DropBody)].boxed()
    } else {
        base.boxed()
    }
}

pub fn payload_strategy() -> BoxedStrategy<Payload> {
    prop_oneof![Just(Payload::Hash), Just(Payload::Runs), Just(Payload::Mixed), Just(Payload::Zeros)].boxed()
}

/// Adds the consumer / drop-mode dimensions to generated histories: a quarter with a consumer that
/// stops polling once `is_end_stream()` is true, an eighth each with the writer / the body dropped
/// during a panic unwind.
pub fn with_flags(s: BoxedStrategy<SCase>) -> BoxedStrategy<SCase> {
    (s, any::<u8>())
        .prop_map(|(mut c, f)| {
            c.stop_at_eos = f & 3 == 0;
            c.unwind_writer_drop = f & 0x1c == 4;
            c.unwind_body_drop = f & 0xe0 == 0x20;
            c
        })
        .boxed()
}

pub fn case_strategy(gzip: bool, with_faults: bool, max_ops: usize) -> BoxedStrategy<SCase> {
    with_flags(case_strategy_plain(gzip, with_faults, max_ops))
}

fn case_strategy_plain(gzip: bool, with_faults: bool, max_ops: usize) -> BoxedStrategy<SCase> {
    (chunk_strategy(gzip), 1u32..=9, payload_strategy(), 0usize..=4)
        .prop_flat_map(move |(chunk, level, payload, extra_polls)| {
            (vec(op_strategy(chunk, with_faults, gzip), 0..max_ops), Just((chunk, level, payload, extra_polls)))
        })
        .prop_map(move |(ops, (chunk, level, payload, extra_polls))| SCase {
            gzip: if gzip { Some(level) } else { None },
            chunk,
            payload,
            ops,
            extra_polls, ..Default::default()
        })
        .boxed()
}

/// Histories made of a short pattern repeated many times (the shape of event-stream style
/// producers: small write + flush, again and again), followed by a few more operations.
pub fn repeated_pattern_strategy(gzip: bool) -> BoxedStrategy<SCase> {
    with_flags(repeated_pattern_strategy_plain(gzip))
}

fn repeated_pattern_strategy_plain(gzip: bool) -> BoxedStrategy<SCase> {
    (chunk_strategy(gzip), 1u32..=9, payload_strategy(), 0usize..=2)
        .prop_flat_map(move |(chunk, level, payload, extra_polls)| {
            (
                vec(op_strategy(chunk, false, gzip), 1..=3),
                2usize..=64,
                vec(op_strategy(chunk, false, gzip), 0..5),
                Just((chunk, level, payload, extra_polls)),
            )
        })
        .prop_map(move |(pattern, times, suffix, (chunk, level, payload, extra_polls))| {
            let mut ops = Vec::new();
            let mut bytes = 0u64;
            'outer: for _ in 0..times {
                for o in &pattern {
                    match o {
                        Op::Write(n) | Op::WriteAll(n) => bytes += *n as u64,
                        Op::WriteV(a, b) => bytes += *a as u64 + *b as u64,
                        _ => {}
                    }
                    if bytes > 600_000 || ops.len() > 200 {
                        break 'outer;
                    }
                    ops.push(*o);
                }
            }
            ops.extend(suffix);
            SCase {
                gzip: if gzip { Some(level) } else { None },
                chunk,
                payload,
                ops,
                extra_polls, ..Default::default()
            }
        })
        .boxed()
}

/// Two repeated patterns with a few operations in between (many short flushed chunks, one full
/// chunk, many short ones again, ...), then a random suffix.
pub fn two_phase_pattern_strategy(gzip: bool) -> BoxedStrategy<SCase> {
    with_flags(two_phase_pattern_strategy_plain(gzip))
}

fn two_phase_pattern_strategy_plain(gzip: bool) -> BoxedStrategy<SCase> {
    (chunk_strategy(gzip), 1u32..=9, payload_strategy(), 0usize..=2)
        .prop_flat_map(move |(chunk, level, payload, extra_polls)| {
            (
                vec(op_strategy(chunk, false, gzip), 1..=2),
                2usize..=48,
                vec(op_strategy(chunk, false, gzip), 0..=3),
                vec(op_strategy(chunk, false, gzip), 1..=2),
                2usize..=48,
                vec(op_strategy(chunk, false, gzip), 0..4),
                Just((chunk, level, payload, extra_polls)),
            )
        })
        .prop_map(move |(p1, t1, mid, p2, t2, suffix, (chunk, level, payload, extra_polls))| {
            let mut ops = Vec::new();
            let mut bytes = 0u64;
            let mut push = |o: &Op, ops: &mut Vec<Op>| -> bool {
                match o {
                    Op::Write(n) | Op::WriteAll(n) => bytes += *n as u64,
                    Op::WriteV(a, b) => bytes += *a as u64 + *b as u64,
                    _ => {}
                }
                if bytes > 600_000 || ops.len() > 260 {
                    return false;
                }
                ops.push(*o);
                true
            };
            'a: for _ in 0..t1 {
                for o in &p1 {
                    if !push(o, &mut ops) {
                        break 'a;
                    }
                }
            }
            for o in &mid {
                push(o, &mut ops);
            }
            'b: for _ in 0..t2 {
                for o in &p2 {
                    if !push(o, &mut ops) {
                        break 'b;
                    }
                }
            }
            ops.extend(suffix);
            SCase { gzip: if gzip { Some(level) } else { None }, chunk, payload, ops, extra_polls, ..Default::default() }
        })
        .boxed()
}

/// Histories that begin with a large backlog the consumer has not polled (64 KiB to 5 MiB, in one
/// `write_all` or in several writes), continue with a few operations and end with the drop.
pub fn backlog_strategy(gzip: bool) -> BoxedStrategy<SCase> {
    with_flags(backlog_strategy_plain(gzip))
}

fn backlog_strategy_plain(gzip: bool) -> BoxedStrategy<SCase> {
    (
        prop_oneof![2 => proptest::sample::select(&[64usize, 1000, 4096, 65_536][..]), 1 => chunk_strategy(gzip)],
        proptest::sample::select(&[65_536u32, (1 << 20) - 4096, 1 << 20, (1 << 20) + 4097, (2 << 20) + 3, 5 << 20][..]),
        0u8..3,
        1u32..=9,
    )
        .prop_flat_map(move |(chunk, backlog, how, level)| {
            let chunk = chunk.max(16);
            (vec(op_strategy(chunk, false, gzip), 0..8), Just((chunk, backlog, how, level)), 0usize..=2)
        })
        .prop_map(move |(rest, (chunk, backlog, how, level), extra_polls)| {
            let c = chunk as u32;
            let mut ops = match how {
                0 => vec![Op::WriteAll(backlog)],
                // whole chunks only, then the remainder
                1 => vec![Op::WriteAll(backlog / c * c), Op::WriteAll(backlog % c)],
                _ => vec![Op::WriteAll(backlog / 2), Op::Write(c.min(7)), Op::Flush, Op::WriteAll(backlog / 2)],
            };
            // keep the backlog unread for a while: polls only after the first three further operations
            let mut k = 0;
            for o in rest {
                let is_poll = matches!(o, Op::FlushThenDrain | Op::PollUntilPending | Op::Poll(_));
                if k < 3 && is_poll {
                    ops.push(Op::Flush);
                } else {
                    ops.push(o);
                }
                k += 1;
            }
            SCase { gzip: if gzip { Some(level) } else { None }, chunk, payload: Payload::Hash, ops, extra_polls, ..Default::default() }
        })
        .boxed()
}

/// Fill / partly drain / fill again / drain: the queue's ring buffer wraps around. Chunk size 1 or 2,
/// so that a few hundred bytes are a few hundred queued chunks.
pub fn ring_buffer_cases(mut f: impl FnMut(SCase)) {
    for chunk in [1usize, 2] {
        for a in [40u32, 70, 100, 130, 200, 300] {
            for drain_pct in [10u32, 25, 40, 60, 75, 90] {
                for b in [a / 5, a / 2, a, a + a / 3] {
                    for second_drain in [None, Some(50u32)] {
                        let c = chunk as u32;
                        let first = (a * drain_pct / 100).max(1);
                        let mut ops = vec![Op::WriteAll(a * c)];
                        // Poll takes a u8: several ops for larger counts
                        let mut left = first;
                        while left > 0 {
                            let k = left.min(120);
                            ops.push(Op::Poll(k as u8));
                            left -= k;
                        }
                        ops.push(Op::WriteAll(b * c));
                        if let Some(pct) = second_drain {
                            let mut left = ((a - first + b) * pct / 100).max(1);
                            while left > 0 {
                                let k = left.min(120);
                                ops.push(Op::Poll(k as u8));
                                left -= k;
                            }
                            ops.push(Op::WriteAll(a * c / 2 + 1));
                        }
                        f(SCase { gzip: None, chunk, payload: Payload::Hash, ops, extra_polls: 1, ..Default::default() });
                    }
                }
            }
        }
    }
}

/// `n` writes of `s` bytes each, a flush that the consumer drains, one more byte: for every `n` the
/// flush falls right after the write that makes the total cross whatever internal threshold there is.
pub fn small_writes_then_flush(gzip: Option<u32>, chunk: usize, s: u32, n: usize) -> SCase {
    let mut ops: Vec<Op> = std::iter::repeat(Op::Write(s)).take(n).collect();
    ops.push(Op::FlushThenDrain);
    ops.push(Op::Write(1));
    SCase { gzip, chunk, payload: Payload::Hash, ops, extra_polls: 1, ..Default::default() }
}

/// All op sequences of length `n` over the small alphabet for chunk size `c`.
pub fn enumerate_ops(c: usize, n: usize, f: &mut dyn FnMut(&[Op])) {
    let mut alphabet: Vec<Op> = Vec::new();
    for s in sizes_for(c) {
        alphabet.push(Op::Write(s));
        alphabet.push(Op::WriteAll(s));
    }
    alphabet.push(Op::WriteV(c.saturating_sub(1) as u32, 2));
    alphabet.push(Op::WriteV(1, c as u32));
    alphabet.push(Op::Flush);
    alphabet.push(Op::FlushThenDrain);
    alphabet.push(Op::PollUntilPending);
    fn rec(alpha: &[Op], n: usize, cur: &mut Vec<Op>, f: &mut dyn FnMut(&[Op])) {
        if cur.len() == n {
            f(cur);
            return;
        }
        for o in alpha {
            cur.push(*o);
            rec(alpha, n, cur, f);
            cur.pop();
        }
    }
    rec(&alphabet, n, &mut Vec::new(), f);
}

// ------------------------------------------------------------------------------------------------
// C08 / C09.

pub const META_C08: Meta = Meta {
    id: "C08",
    level: "exploration",
    rule: "Stateful/model-based: operation histories over {write(n), write_all(n), write_vectored(a, b), flush, flush-then-drain, poll-until-pending, poll(k), sample} with n in {0,1,c-1,c,c+1,2c,3c,random}, then drop, interpreted against streaming_body (identity coding) and an in-memory model of accepted bytes, by a consumer that polls to the end and by one that stops polling once is_end_stream() is true (as hyper does), with the writer dropped normally or while its thread unwinds from a panic. Exhaustive for all histories of <= 4 operations (thorough 5) over the 19-op alphabet with chunk sizes {1,2,3,4,7}; proptest vec(op, 0..40) for chunk sizes up to 65536 with size classes {boundary sizes, nearly a full chunk, small fractions of a chunk, hundreds of chunks}, 'repeated-pattern' histories (1-3 operations repeated 2-64 times, or two patterns with a few operations between them), 'ring-buffer' histories (fill with 40-300 chunks, drain part of them, fill again), 'backlog' histories (64 KiB to 5 MiB written before the consumer polls, in one write_all or several writes), and for every n up to 420 (thorough 1400): n writes of s in {1,21,50,63} bytes, flush, drain, one more byte. Payload bytes are a running position hash so order and duplication are visible. Non-trivial = >= 2 writes with a partial acceptance or a chunk boundary crossed, and a poll between two producer operations; distinct by fingerprint of history.",
    assumptions: &["single-threaded interleaving of producer operations and consumer polls (schedules are C10's subject)"],
};

pub const META_C09: Meta = Meta {
    id: "C09",
    level: "exploration",
    rule: "Same history generator as C08 with gzip negotiated: levels 1..=9 x chunk sizes {1,2,3,5,10,18,64,4096,65536} x payload classes {incompressible position hash, long runs, mixed, zeros, empty}. Oracle: own RFC 1951/1952 prefix-restartable decoder (cross-checked against flate2's decoder on every final body; disagreement = inconclusive): after drop exactly one member, CRC-32 and ISIZE correct, no trailing bytes, output == bytes written; after every flush-then-drain the decoder fed only the frames so far reproduces every byte written before the flush. Non-trivial = payload > 0 with a mid-stream flush, or chunk size < 18, or empty payload; distinct by fingerprint of history.",
    assumptions: &["the harness inflater implements RFC 1951/1952 correctly (unit-tested against flate2 at all levels; cross-checked on every case)"],
};

pub fn check_stream_pub(c: &SCase, acc: &mut Acc, gz: bool) -> Check {
    check_stream(c, acc, gz)
}

pub fn check_trace_pub(c: &SCase, acc: &mut Acc, c20: bool) -> Check {
    check_trace(c, acc, c20)
}

fn check_stream(c: &SCase, acc: &mut Acc, gz: bool) -> Check {
    let run = execute(c);
    if let Some(f) = internal(&run) {
        let gzs: Vec<String> = run.issues.iter().filter(|i| i.sig.starts_with("gz:")).map(|i| format!("{}: {}", i.sig, i.msg)).collect();
        acc.internal_errors.push(format!("{}: {}; own decoder's complaints {:?}; case {}", f.sig, f.msg, gzs, serde_json::to_string(c).unwrap_or_default()));
        return Ok(());
    }
    let prefixes: &[&str] = if gz { &["gz:", "w:"] } else { &["w:"] };
    if let Some(f) = first_issue(&run, prefixes) {
        return fail(f.sig.clone(), format!("{}; case {}; trace {}", f.msg, serde_json::to_string(c).unwrap_or_default(), run.trace.summary()));
    }
    let n_writes = c.ops.iter().filter(|o| matches!(o, Op::Write(n) | Op::WriteAll(n) if *n > 0) || matches!(o, Op::WriteV(a, b) if a + b > 0)).count();
    let (label, nontrivial) = if gz {
        let l = if run.accepted.is_empty() {
            "gzip:empty-payload"
        } else if run.mid_flush {
            "gzip:mid-stream-flush"
        } else if c.chunk < 18 {
            "gzip:tiny-chunks"
        } else {
            "gzip:plain"
        };
        (l, run.accepted.is_empty() || run.mid_flush || c.chunk < 18)
    } else {
        let nt = n_writes >= 2 && (run.partial_write || run.chunk_crossed) && run.poll_between_ops;
        (if nt { "identity:interleaved" } else if run.chunk_crossed { "identity:chunk-crossed" } else { "identity:simple" }, nt)
    };
    acc.note(label, nontrivial, fingerprint(c), || json!({"case": c, "accepted": run.accepted.len(), "received": run.received.len(), "trace": run.trace.summary()}));
    Ok(())
}

pub fn run_c08(cx: &Cx) -> Acc {
    let mut acc = Acc::new();
    let max_n = cx.tier.pick(4usize, 5usize);
    let units: Vec<(usize, usize)> = [1usize, 2, 3, 4, 7].iter().flat_map(|c| (0..=max_n).map(move |n| (*c, n))).collect();
    acc.merge(par_units(cx, "exhaustive-short", &units, true, "every history of n operations over the 19-op alphabet for chunk sizes {1,2,3,4,7}", |cx, &(c, n), acc| {
        enumerate_ops(c, n, &mut |ops| {
            // plain; with a consumer that stops at is_end_stream(); with the writer dropped during an unwind
            for (stop_at_eos, unwind_writer_drop) in [(false, false), (true, false), (false, true)] {
                let case = SCase {
                    gzip: None,
                    chunk: c,
                    payload: Payload::Hash,
                    ops: ops.to_vec(),
                    extra_polls: 1,
                    stop_at_eos,
                    unwind_writer_drop,
                    ..Default::default()
                };
                acc.run_case(cx, "exhaustive-short", &case, |acc| check_stream(&case, acc, false));
            }
        });
    }));
    let n = cx.tier.pick(1u64, 20u64);
    acc.merge(par_proptest(cx, "random", 100_000 * n, || case_strategy(false, false, 40), |c, acc| check_stream(c, acc, false)));
    acc.merge(par_proptest(cx, "repeated-pattern", 40_000 * n, || prop_oneof![2 => repeated_pattern_strategy(false), 1 => two_phase_pattern_strategy(false)], |c, acc| check_stream(c, acc, false)));
    acc.merge(par_proptest(cx, "backlog", 300 * n, || backlog_strategy(false), |c, acc| check_stream(c, acc, false)));
    acc.merge(par_units(cx, "ring-buffer", &[0u8], true, "fill with 40-300 chunks, drain 10-90 % of them, fill again, optionally drain half and fill once more (chunk size 1 and 2)", |cx, _, acc| {
        ring_buffer_cases(|case| {
            acc.run_case(cx, "ring-buffer", &case, |acc| check_stream(&case, acc, false));
        });
    }));
    let max_writes = cx.tier.pick(420usize, 1400usize);
    let units: Vec<(usize, u32)> = [64usize, 4096].iter().flat_map(|c| [1u32, 21, 50, 63].into_iter().map(move |s| (*c, s))).collect();
    acc.merge(par_units(cx, "small-writes-then-flush", &units, true, "n writes of s bytes, flush, drain, one more byte: every n up to the bound, s in {1,21,50,63}, chunk {64,4096}", |cx, &(c, s), acc| {
        for k in 1..=max_writes {
            let case = small_writes_then_flush(None, c, s, k);
            acc.run_case(cx, "small-writes-then-flush", &case, |acc| check_stream(&case, acc, false));
        }
    }));
    acc
}

pub fn run_c09(cx: &Cx) -> Acc {
    let mut acc = Acc::new();
    // Short histories exhaustively for two tiny chunk sizes and three levels.
    let max_n = cx.tier.pick(3usize, 4usize);
    let units: Vec<(usize, u32, usize)> = [1usize, 5].iter().flat_map(|c| [1u32, 6, 9].into_iter().flat_map(move |l| (0..=max_n).map(move |n| (*c, l, n)))).collect();
    acc.merge(par_units(cx, "exhaustive-short", &units, true, "every history of n operations over the 19-op alphabet, chunk sizes {1,5}, levels {1,6,9}", |cx, &(c, level, n), acc| {
        enumerate_ops(c, n, &mut |ops| {
            for (stop_at_eos, unwind_writer_drop) in [(false, false), (true, false), (false, true)] {
                let case = SCase {
                    gzip: Some(level),
                    chunk: c,
                    payload: if n % 2 == 0 { Payload::Runs } else { Payload::Hash },
                    ops: ops.to_vec(),
                    extra_polls: 1,
                    stop_at_eos,
                    unwind_writer_drop,
                    ..Default::default()
                };
                acc.run_case(cx, "exhaustive-short", &case, |acc| check_stream(&case, acc, true));
            }
        });
    }));
    let n = cx.tier.pick(1u64, 20u64);
    acc.merge(par_proptest(cx, "random", 20_000 * n, || case_strategy(true, false, 40), |c, acc| check_stream(c, acc, true)));
    acc.merge(par_proptest(cx, "repeated-pattern", 6_000 * n, || prop_oneof![2 => repeated_pattern_strategy(true), 1 => two_phase_pattern_strategy(true)], |c, acc| check_stream(c, acc, true)));
    acc.merge(par_proptest(cx, "backlog", 60 * n, || backlog_strategy(true), |c, acc| check_stream(c, acc, true)));
    let max_writes = cx.tier.pick(420usize, 1400usize);
    let units: Vec<(usize, u32, u32)> = [64usize, 4096].iter().flat_map(|c| [1u32, 21, 50, 63].into_iter().flat_map(move |s| [1u32, 6].into_iter().map(move |l| (*c, s, l)))).collect();
    acc.merge(par_units(cx, "small-writes-then-flush", &units, true, "n writes of s bytes, flush, drain (everything written must decode), one more byte: every n up to the bound, s in {1,21,50,63}, chunk {64,4096}, level {1,6}", |cx, &(c, s, level), acc| {
        for k in 1..=max_writes {
            let case = small_writes_then_flush(Some(level), c, s, k);
            acc.run_case(cx, "small-writes-then-flush", &case, |acc| check_stream(&case, acc, true));
        }
    }));
    // Large payloads (up to 256 KiB) in a few writes.
    acc.merge(par_proptest(
        cx,
        "large",
        400 * n,
        || {
            (1u32..=9, chunk_strategy(true), payload_strategy(), vec((1u32..=262_144, any::<bool>()), 1..4)).prop_map(|(level, chunk, payload, ws)| SCase {
                gzip: Some(level),
                chunk: chunk.max(64),
                payload,
                ops: ws
                    .into_iter()
                    .enumerate()
                    .flat_map(|(i, (n, fl))| {
                        // whole-buffer write_all, a single write call followed by write_all of the rest, or a vectored write
                        let w = match (n + i as u32) % 3 {
                            0 => vec![Op::WriteAll(n)],
                            1 => vec![Op::Write(n), Op::WriteAll(n / 3)],
                            _ => vec![Op::WriteV(n - n / 4, n / 4), Op::WriteAll(n / 5)],
                        };
                        if fl {
                            w.into_iter().chain([Op::FlushThenDrain]).collect::<Vec<_>>()
                        } else {
                            w
                        }
                    })
                    .collect(),
                extra_polls: 1, ..Default::default()
            })
        },
        |c, acc| check_stream(c, acc, true),
    ));
    acc
}

fn dec(case: &Value) -> Result<SCase, Fail> {
    serde_json::from_value(case.clone()).map_err(|e| Fail {
        sig: "replay-decode".into(),
        msg: e.to_string(),
    })
}

pub fn replay_c08(_cx: &Cx, _phase: &str, case: &Value, acc: &mut Acc) -> Check {
    check_stream(&dec(case)?, acc, false)
}

pub fn replay_c09(_cx: &Cx, _phase: &str, case: &Value, acc: &mut Acc) -> Check {
    check_stream(&dec(case)?, acc, true)
}

pub fn health_c08(acc: &Acc) -> Vec<String> {
    let mut v = Vec::new();
    for l in ["identity:interleaved", "identity:chunk-crossed"] {
        if acc.label(l) < 100 {
            v.push(format!("label {l} seen only {} times", acc.label(l)));
        }
    }
    v
}

pub fn health_c09(acc: &Acc) -> Vec<String> {
    let mut v = Vec::new();
    for l in ["gzip:empty-payload", "gzip:mid-stream-flush", "gzip:tiny-chunks"] {
        if acc.label(l) < 100 {
            v.push(format!("label {l} seen only {} times", acc.label(l)));
        }
    }
    v
}

// ------------------------------------------------------------------------------------------------
// C12 / C20 on streaming traces.

fn check_trace(c: &SCase, acc: &mut Acc, c20: bool) -> Check {
    let run = execute_with(c, true);
    let t = &run.trace;
    let what = if c.gzip.is_some() { "streaming-gzip" } else { "streaming-identity" };
    let ctx = || format!("case {}", serde_json::to_string(c).unwrap_or_default());
    let label = format!(
        "{what}:{}",
        match t.terminal() {
            Some(Ev::End) => "clean-end",
            Some(Ev::Err(_)) => "abort",
            _ => "no-terminal",
        }
    );
    if c20 {
        if t.steps.iter().any(|s| matches!(s.ev, Ev::Panic(_))) {
            acc.count("panic-before-terminal(see C08/C11)");
            return Ok(());
        }
        check_terminated_stays(t, what).map_err(|f| Fail { sig: f.sig, msg: format!("{}; {}", f.msg, ctx()) })?;
        acc.note(&label, t.ended_err().is_some() && !t.extra.is_empty(), fingerprint(c), || json!({"case": c, "trace": t.summary()}));
    } else {
        if run.body_dropped {
            return Ok(());
        }
        check_eos_truthful(t, what).map_err(|f| Fail { sig: f.sig, msg: format!("{}; {}", f.msg, ctx()) })?;
        check_hints(t, false, what).map_err(|f| Fail { sig: f.sig, msg: format!("{}; {}", f.msg, ctx()) })?;
        let changed = t.steps.len() >= 3 && t.steps.windows(2).any(|w| w[0].lower != w[1].lower || w[0].upper != w[1].upper);
        acc.note(&label, changed, fingerprint(c), || json!({"case": c, "trace": t.summary()}));
    }
    Ok(())
}

fn trace_strategy() -> BoxedStrategy<SCase> {
    prop_oneof![70 => case_strategy(false, true, 24), 10 => case_strategy(true, true, 8), 1 => backlog_strategy(false)].boxed()
}

pub fn run_for_c12_c20(cx: &Cx, c20: bool) -> Acc {
    let mut acc = Acc::new();
    let n = cx.tier.pick(1u64, 15u64);
    acc.merge(par_proptest(cx, "streaming", 60_000 * n, trace_strategy, |c, acc| check_trace(c, acc, c20)));
    // Short histories with an abort at every position, exhaustively (chunk size 2).
    let units: Vec<usize> = (0..=3).collect();
    acc.merge(par_units(cx, "streaming-abort-positions", &units, true, "every history of n <= 3 operations (chunk 2) with an abort inserted at every position, polled/sampled before and after", |cx, &n, acc| {
        enumerate_ops(2, n, &mut |ops| {
            for at in 0..=ops.len() {
                let mut v: Vec<Op> = ops[..at].to_vec();
                v.push(Op::Sample);
                v.push(Op::Abort);
                v.push(Op::Sample);
                v.extend_from_slice(&ops[at..]);
                let case = SCase {
                    gzip: None,
                    chunk: 2,
                    payload: Payload::Hash,
                    ops: v,
                    extra_polls: 1 + at % 4, ..Default::default()
                };
                acc.run_case(cx, "streaming-abort-positions", &case, |acc| check_trace(&case, acc, c20));
            }
        });
    }));
    acc
}

pub fn replay_for_c12_c20(_cx: &Cx, phase: &str, case: &Value, acc: &mut Acc, c20: bool) -> Check {
    if phase.starts_with("streaming") {
        check_trace(&dec(case)?, acc, c20)
    } else {
        fail("replay-decode", format!("unknown phase {phase}"))
    }
}
