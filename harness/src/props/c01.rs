//! C01 — announced length equals the bytes actually delivered.
//! C02 — body bytes are exactly the entity bytes the headers denote.
//! Both run on the same generated (entity, request) cases; each has its own oracle subset.

use crate::drain::DrainOpts;
use crate::engine::*;
use crate::entity::{EntitySpec, Mtime, PStep, ReqSpec};
use crate::reqgen::{self, Profile};
use crate::served::{interpret, serve_case, Kind, ServeFailure, Served, View};
use crate::util::{fingerprint, Bs};
use serde::{Deserialize, Serialize};
use serde_json::{json, Value};

pub const META_C01: Meta = Meta {
    id: "C01",
    level: "exploration",
    rule: "Cases are (entity spec, request) pairs: proptest over all six request headers generated relative to the entity (own tag, W/-toggled, dates around Last-Modified, range positions around L), lengths 0..2^64-1 incl. decimal-width boundaries 10^k-1 / 10^k, chunk plans with sizes {1,2,3,7,64,4096,rest}, empty chunks and Pending polls, chunks handed over as 1-3 segments of a non-contiguous Data type; the C06 multipart generator (small parts on entities of any size, dozens of parts, near-overflow shapes); plus an exhaustive sweep L in 0..=6 x all single range specs with positions 0..=L+2 x all plans [Chunk(a),Chunk(b),Rest] (+Empty/Pending variants), and all double specs under three plans. Oracle: Content-Length / initial exact size hint vs. bytes drained. Non-trivial = body drained to a clean end with announced length > 0 and (>= 2 frames, or a Pending, or multipart, or a non-2xx body); distinct by fingerprint of the whole case.",
    assumptions: &[
        "harness entity honours the Entity contract",
        "bodies announced larger than 1 MiB are drained as a bounded prefix (never-more-than-announced and initial hint still checked)",
        "every phase is repeated under the build without debug assertions / overflow checks (release semantics)",
        "a panic inside serve() is C13's subject and only counted here",
    ],
};

pub const META_C02: Meta = Meta {
    id: "C02",
    level: "exploration",
    rule: "Same case space as C01, weighted to satisfiable ranges. Entity content is a position hash (no short period), so a shifted, swapped, repeated or missing byte is visible. Oracle: 200 => body == entity[0..L]; single 206 => Content-Range strictly parses, a <= b < L, complete length == L, body == entity[a..=b]; multipart => each part's bytes equal what its own Content-Range names. Non-trivial = 206/multipart whose range is a proper sub-range, body fully compared, delivered in >= 2 frames; distinct by fingerprint of the case.",
    assumptions: &[
        "harness entity honours the Entity contract",
        "bodies larger than 1 MiB are compared on a bounded prefix",
        "what the Range header should have resolved to is C03's subject, not checked here",
    ],
};

#[derive(Clone, Debug, Serialize, Deserialize)]
pub struct Case {
    pub ent: EntitySpec,
    pub req: ReqSpec,
}

pub fn opts_for(ent: &EntitySpec, extra_polls: usize) -> DrainOpts {
    if light() {
        return DrainOpts {
            max_bytes: 6000,
            keep_bytes: 16_384,
            max_frames: 64,
            extra_polls,
            ..Default::default()
        };
    }
    DrainOpts {
        max_bytes: if ent.len > (1 << 20) { 300_000 } else { 1 << 21 },
        keep_bytes: 1 << 21,
        max_frames: if ent.len > (1 << 20) { 2048 } else { 1 << 20 },
        extra_polls,
        ..Default::default()
    }
}

/// Serve and interpret; `None` if the case was aborted by a panic in serve (counted).
pub fn serve_view(c: &Case, acc: &mut Acc, extra_polls: usize) -> Option<(Served, View)> {
    let served = match serve_case(&c.ent, &c.req, opts_for(&c.ent, extra_polls)) {
        Ok(s) => s,
        Err(ServeFailure::BadRequestSpec) => {
            acc.count("invalid-request-spec-skipped");
            return None;
        }
        Err(ServeFailure::Panic(_)) => {
            acc.count("aborted-by-panic-in-serve(see C13)");
            return None;
        }
    };
    let is_head = c.req.method == "HEAD";
    let view = interpret(&served, &c.ent, is_head);
    Some((served, view))
}

fn ctx(c: &Case) -> String {
    format!(
        "entity len={} etag={:?} mtime={:?} plan={:?}; request {} {:?}",
        c.ent.len,
        c.ent.etag,
        c.ent.mtime,
        c.ent.plan,
        c.req.method,
        c.req.headers
    )
}

fn kind_name(v: &View) -> String {
    match &v.kind {
        Kind::Full => "200".into(),
        Kind::Single { .. } => "206".into(),
        Kind::Multi { .. } => "multipart".into(),
        Kind::Unsat { .. } => "416".into(),
        Kind::Other => v.status.to_string(),
    }
}

pub fn check_c01(c: &Case, acc: &mut Acc) -> Check {
    let Some((served, view)) = serve_view(c, acc, 0) else { return Ok(()) };
    if served.trace.panicked().is_some() {
        acc.count("aborted-by-panic-in-drain(see C13)");
        return Ok(());
    }
    if c.req.method == "HEAD" {
        // The statement is about GET; HEAD framing is C15's subject.
        acc.count("head-skipped");
        return Ok(());
    }
    if served.trace.stalled {
        acc.count("stalled");
        if std::env::var_os("VP_DEBUG").is_some() { eprintln!("STALLED {} :: {}", ctx(c), served.trace.summary()); }
        return Ok(());
    }
    if let Some(i) = view.first_issue(&["len:", "multipart:content-length"]) {
        return fail(format!("{}:{}", i.sig, kind_name(&view)), format!("{}; {}", i.msg, ctx(c)));
    }
    let t = &served.trace;
    let announced = view.content_length.unwrap_or(served.hint0.0);
    let nontrivial = t.ended_cleanly()
        && announced > 0
        && (t.frames >= 2 || t.pendings > 0 || matches!(view.kind, Kind::Multi { .. }) || !(200..300).contains(&view.status));
    let label = format!(
        "{}{}",
        kind_name(&view),
        if t.capped { "-prefix" } else if t.ended_cleanly() { "" } else { "-err" }
    );
    acc.note(&label, nontrivial, fingerprint(c), || {
        json!({"entity_len": c.ent.len, "plan": c.ent.plan, "request": c.req, "status": view.status, "content_length": view.content_length, "delivered": t.delivered, "frames": t.frames, "pendings": t.pendings})
    });
    Ok(())
}

pub fn check_c02(c: &Case, acc: &mut Acc) -> Check {
    let Some((served, view)) = serve_view(c, acc, 0) else { return Ok(()) };
    if served.trace.panicked().is_some() {
        // The drain died (C13's subject), but bytes that were delivered before that and are not the
        // bytes their part's Content-Range names are wrong all the same.
        if c.req.method == "GET" {
            if let Some(i) = view.first_issue(&["bytes:multipart-part", "bytes:200-body", "bytes:206-body"]) {
                return fail(format!("{}:{}:before-panic", i.sig, kind_name(&view)), format!("{}; (the drain panicked afterwards) {}", i.msg, ctx(c)));
            }
        }
        acc.count("aborted-by-panic-in-drain(see C13)");
        return Ok(());
    }
    if c.req.method != "GET" {
        acc.count("non-get-skipped");
        return Ok(());
    }
    if let Some(i) = view.first_issue(&["bytes:", "fmt:content-range", "fmt:206-without-content-range"]) {
        return fail(format!("{}:{}", i.sig, kind_name(&view)), format!("{}; {}", i.msg, ctx(c)));
    }
    if let Kind::Multi { ranges: None, truncated: false, .. } = &view.kind {
        // drained to the end and not a readable multipart/byteranges document: the bytes the part
        // headers denote cannot be told from the headers
        let why = view.first_issue(&["multipart:", "fmt:"]).map(|i| i.msg.clone()).unwrap_or_default();
        return fail("bytes:multipart-unreadable:multipart", format!("the multipart body cannot be parsed ({why}); {}", ctx(c)));
    }
    // Statuses that name no entity bytes must not contain any: their bodies are fixed texts or
    // empty, so any body longer than 64 bytes or equal to entity content of that length is suspect.
    if matches!(view.kind, Kind::Other | Kind::Unsat { .. }) {
        let b = &served.trace.body;
        if b.len() >= 8 && c.ent.len >= 8 {
            let n = b.len().min(c.ent.len as usize);
            // look for an 8-byte window of entity content at the start positions a client could confuse
            let w = crate::util::content(0, n.min(4096));
            if b.windows(8).any(|x| w.windows(8).any(|y| x == y)) {
                return fail(
                    format!("bytes:entity-data-in-{}", view.status),
                    format!("status {} body contains entity bytes; {}", view.status, ctx(c)),
                );
            }
        }
    }
    if view.other_issues(&["bytes:", "fmt:content-range", "fmt:206-without-content-range"]) > 0 {
        acc.count("issues-of-other-properties-seen");
    }
    let t = &served.trace;
    let proper_sub = match &view.kind {
        Kind::Single { first, last, .. } => *first > 0 || *last + 1 < c.ent.len,
        Kind::Multi { ranges: Some(_), .. } => true,
        _ => false,
    };
    let nontrivial = proper_sub && view.fully_compared && t.frames >= 2;
    let label = format!("{}{}", kind_name(&view), if view.fully_compared { "" } else { "-prefix" });
    acc.note(&label, nontrivial, fingerprint(c), || {
        json!({"entity_len": c.ent.len, "plan": c.ent.plan, "request": c.req, "status": view.status,
               "content_range": served.head.one_str("content-range").ok().flatten(), "body_bytes_compared": t.body.len(), "frames": t.frames})
    });
    Ok(())
}

// ------------------------------------------------------------------------------------------------

fn sweep_plans(l: u64) -> Vec<Vec<PStep>> {
    let mut v = vec![vec![PStep::Rest]];
    for a in 1..=l.max(1) as u32 {
        for b in 1..=l.max(1) as u32 {
            v.push(vec![PStep::Chunk(a), PStep::Chunk(b), PStep::Rest]);
            match (a + b) % 3 {
                0 => v.push(vec![PStep::Empty, PStep::Chunk(a), PStep::Pending, PStep::Chunk(b), PStep::Rest]),
                1 => v.push(vec![PStep::Chunk(a), PStep::Empty, PStep::Empty, PStep::Chunk(b), PStep::Pending]),
                _ => v.push(vec![PStep::Pending, PStep::Pending, PStep::Chunk(a), PStep::Chunk(b), PStep::Empty]),
            }
        }
    }
    v
}

fn sweep(cx: &Cx, phase: &str, l: u64, acc: &mut Acc, f: &(dyn Fn(&Case, &mut Acc) -> Check + Sync)) {
    let mut specs = Vec::new();
    for a in 0..=l + 2 {
        for b in 0..=l + 2 {
            specs.push(format!("{a}-{b}"));
        }
        specs.push(format!("{a}-"));
        specs.push(format!("-{a}"));
    }
    let plans = sweep_plans(l);
    let mk = |range: String, plan: &Vec<PStep>| Case {
        ent: EntitySpec {
            len: l,
            etag: None,
            mtime: Mtime::None,
            headers: vec![],
            plan: plan.clone(),
            faults: vec![],
            tail: vec![],
            segments: 0,
            counting_hint: false,
            unfused_errors: false,
        },
        req: ReqSpec::get().with("range", range),
    };
    for s in &specs {
        for p in &plans {
            let c = mk(format!("bytes={s}"), p);
            acc.run_case(cx, phase, &c, |acc| f(&c, acc));
        }
    }
    let few = [plans[0].clone(), plans[plans.len() / 2].clone(), plans[plans.len() - 1].clone()];
    for (i, s1) in specs.iter().enumerate() {
        for (j, s2) in specs.iter().enumerate() {
            let c = mk(format!("bytes={s1},{s2}"), &few[(i + j) % 3]);
            acc.run_case(cx, phase, &c, |acc| f(&c, acc));
        }
    }
    // no Range at all, every plan
    for p in &plans {
        let c = Case {
            ent: mk(String::new(), p).ent,
            req: ReqSpec::get(),
        };
        acc.run_case(cx, phase, &c, |acc| f(&c, acc));
    }
}

fn case_strategy(range_w: u32) -> impl Fn() -> proptest::strategy::BoxedStrategy<Case> + Sync {
    use proptest::strategy::Strategy;
    move || {
        let p = Profile {
            range: range_w,
            if_range: 2,
            cond: 2,
            methods: false,
            max_specs: 4,
            multipart_bias: true,
        };
        reqgen::case_strategy(reqgen::len_strategy(), p)
            .prop_map(|(ent, req)| Case { ent, req })
            .boxed()
    }
}

/// Requests with another method (405 bodies) and HEAD, for the "responses without Content-Length
/// still advertise their exact body size" clause.
fn method_strategy() -> proptest::strategy::BoxedStrategy<Case> {
    use proptest::prelude::*;
    let p = Profile {
        range: 5,
        if_range: 2,
        cond: 4,
        methods: false,
        max_specs: 3,
        multipart_bias: false,
    };
    (
        reqgen::case_strategy(reqgen::small_len_strategy(), p),
        proptest::sample::select(&["POST", "PUT", "DELETE", "OPTIONS", "PATCH", "get", "QUERY", "GET"][..]),
        proptest::option::of(reqgen::arbitrary_value()),
    )
        .prop_map(|((ent, mut req), m, bad)| {
            req.method = m.to_string();
            if let Some(b) = bad {
                // an unparseable conditional makes 400
                req.headers.push(("if-match".into(), Bs([b"\"x\", ".as_slice(), &b.0].concat())));
            }
            Case { ent, req }
        })
        .boxed()
}

fn run_with(cx: &Cx, range_w: u32, f: &(dyn Fn(&Case, &mut Acc) -> Check + Sync)) -> Acc {
    let mut acc = Acc::new();
    let units: Vec<u64> = (0..=6).collect();
    acc.merge(par_units(cx, "sweep", &units, true, "L in 0..=6 x all single specs (positions 0..=L+2) x all plans [Chunk(a),Chunk(b),Rest] with Empty/Pending variants; all double specs x 3 plans", |cx, &l, acc| {
        sweep(cx, "sweep", l, acc, f)
    }));
    let n = cx.tier.pick(1u64, 25u64);
    acc.merge(par_proptest(cx, "random", 200_000 * n, case_strategy(range_w), |c, acc| f(c, acc)));
    acc.merge(par_proptest(cx, "methods-and-errors", 30_000 * n, method_strategy, |c, acc| f(c, acc)));
    acc.merge(par_proptest(cx, "multipart-small-parts", 40_000 * n, crate::props::c06::case_strategy, |c, acc| f(c, acc)));
    // Every triple of ranges over a small grid of end points (nested, overlapping, touching,
    // duplicate, in any order) on one entity: the relations *between* neighbouring ranges.
    let grid: [u64; 8] = [0, 10, 20, 50, 60, 100, 200, 300];
    let mut ivs: Vec<(u64, u64)> = Vec::new();
    for (i, a) in grid.iter().enumerate() {
        for b in &grid[i + 1..] {
            ivs.push((*a, *b - 1));
        }
    }
    let firsts: Vec<(u64, u64)> = ivs.clone();
    acc.merge(par_units(cx, "range-relations", &firsts, true, "every triple of ranges with end points on {0,10,20,50,60,100,200,300} (first range = unit), alone and followed by a fourth range, entity of 2400 bytes", |cx, &a, acc| {
        for b in &ivs {
            for c3 in &ivs {
                for plan in [vec![PStep::Rest], vec![PStep::Chunk(7), PStep::Pending, PStep::Rest]] {
                    let case = Case {
                        ent: EntitySpec { plan, ..EntitySpec::simple(2400) },
                        req: ReqSpec::get().with("range", format!("bytes={}-{},{}-{},{}-{}", a.0, a.1, b.0, b.1, c3.0, c3.1)),
                    };
                    acc.run_case(cx, "range-relations", &case, |acc| f(&case, acc));
                }
                // a fourth range after the triple (whatever the triple did to the bookkeeping shows in it)
                for d in [(200u64, 299u64), (0, 9)] {
                    let case = Case {
                        ent: EntitySpec::simple(2400),
                        req: ReqSpec::get().with("range", format!("bytes={}-{},{}-{},{}-{},{}-{}", a.0, a.1, b.0, b.1, c3.0, c3.1, d.0, d.1)),
                    };
                    acc.run_case(cx, "range-relations", &case, |acc| f(&case, acc));
                }
            }
        }
    }));
    acc
}

pub fn run_c01(cx: &Cx) -> Acc {
    run_with(cx, 7, &check_c01)
}

pub fn run_c02(cx: &Cx) -> Acc {
    run_with(cx, 9, &check_c02)
}

fn decode(case: &Value) -> Result<Case, Fail> {
    serde_json::from_value(case.clone()).map_err(|e| Fail {
        sig: "replay-decode".into(),
        msg: e.to_string(),
    })
}

pub fn replay_c01(_cx: &Cx, _phase: &str, case: &Value, acc: &mut Acc) -> Check {
    check_c01(&decode(case)?, acc)
}

pub fn replay_c02(_cx: &Cx, _phase: &str, case: &Value, acc: &mut Acc) -> Check {
    check_c02(&decode(case)?, acc)
}

pub fn health_c01(acc: &Acc) -> Vec<String> {
    let mut v = Vec::new();
    for l in ["200", "206", "multipart", "416", "304", "412", "405", "400", "200-prefix"] {
        if acc.label(l) < 20 {
            v.push(format!("label {l} seen only {} times", acc.label(l)));
        }
    }
    v
}

pub fn health_c02(acc: &Acc) -> Vec<String> {
    let mut v = Vec::new();
    for l in ["200", "206", "multipart", "206-prefix"] {
        if acc.label(l) < 20 {
            v.push(format!("label {l} seen only {} times", acc.label(l)));
        }
    }
    v
}
