use crate::engine::{Acc, Check, Cx, Meta};
use serde_json::Value;

pub mod c01;
pub mod c03;
pub mod c04;
pub mod c05;
pub mod c06;
pub mod c07;
pub mod c11;
pub mod c12;
pub mod stream;
pub mod c13;
pub mod c14;
pub mod c15;
pub mod c16;
pub mod c18;
pub mod c19;

pub struct PropDef {
    pub meta: &'static Meta,
    pub run: fn(&Cx) -> Acc,
    pub replay: fn(&Cx, &str, &Value, &mut Acc) -> Check,
    /// Generator health: returns reasons why the run would be vacuous.
    pub health: fn(&Acc) -> Vec<String>,
}

pub fn registry() -> Vec<PropDef> {
    vec![
        PropDef { meta: &c01::META_C01, run: c01::run_c01, replay: c01::replay_c01, health: c01::health_c01 },
        PropDef { meta: &c01::META_C02, run: c01::run_c02, replay: c01::replay_c02, health: c01::health_c02 },
        PropDef { meta: &c03::META, run: c03::run, replay: c03::replay, health: c03::health },
        PropDef { meta: &c04::META, run: c04::run_all, replay: c04::replay, health: c04::health },
        PropDef { meta: &c05::META, run: c05::run_all, replay: c05::replay, health: c05::health },
        PropDef { meta: &c06::META, run: c06::run, replay: c06::replay, health: c06::health },
        PropDef { meta: &c07::META, run: c07::run, replay: c07::replay, health: c07::health },
        PropDef { meta: &stream::META_C08, run: stream::run_c08, replay: stream::replay_c08, health: stream::health_c08 },
        PropDef { meta: &stream::META_C09, run: stream::run_c09, replay: stream::replay_c09, health: stream::health_c09 },
        PropDef { meta: &crate::sched::META_C10, run: crate::sched::run_c10, replay: crate::sched::replay_c10, health: crate::sched::health_c10 },
        PropDef { meta: &c11::META, run: c11::run, replay: c11::replay, health: c11::health },
        PropDef { meta: &c12::META_C12, run: c12::run_c12, replay: c12::replay_c12, health: c12::health_c12 },
        PropDef { meta: &c16::META_C16, run: c16::run_c16, replay: c16::replay_c16, health: c16::health_c16 },
        PropDef { meta: &c16::META_C17, run: c16::run_c17, replay: c16::replay_c17, health: c16::health_c17 },
        PropDef { meta: &c18::META, run: c18::run, replay: c18::replay, health: c18::health },
        PropDef { meta: &c19::META, run: c19::run, replay: c19::replay, health: c19::health },
        PropDef { meta: &c12::META_C20, run: c12::run_c20, replay: c12::replay_c20, health: c12::health_c20 },
        PropDef { meta: &c13::META, run: c13::run, replay: c13::replay, health: c13::health },
        PropDef { meta: &c14::META, run: c14::run_all, replay: c14::replay, health: c14::health },
        PropDef { meta: &c15::META, run: c15::run, replay: c15::replay, health: c15::health },
    ]
}
