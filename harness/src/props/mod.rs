use crate::engine::{Acc, Check, Cx, Meta};
use serde_json::Value;

pub mod c03;

pub struct PropDef {
    pub meta: &'static Meta,
    pub run: fn(&Cx) -> Acc,
    pub replay: fn(&Cx, &str, &Value, &mut Acc) -> Check,
    /// Generator health: returns reasons why the run would be vacuous.
    pub health: fn(&Acc) -> Vec<String>,
}

pub fn registry() -> Vec<PropDef> {
    vec![PropDef {
        meta: &c03::META,
        run: c03::run,
        replay: c03::replay,
        health: c03::health,
    }]
}
