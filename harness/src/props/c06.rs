//! C06 — multipart/byteranges bodies are well-formed, complete and in request order.

use crate::engine::*;
use crate::ensure;
use crate::entity::{EntitySpec, Mtime, ReqSpec};
use crate::oracle::range_ref::{self, Parsed};
use crate::props::c01::{serve_view, Case};
use crate::reqgen;
use crate::served::Kind;
use crate::util::{fingerprint, Bs};
use proptest::collection::vec;
use proptest::prelude::*;
use serde_json::{json, Value};

pub const META: Meta = Meta {
    id: "C06",
    level: "exploration",
    rule: "Cases: entity length from a few hundred bytes to 2^64-1 (incl. 10^k and 2^k boundaries so that numbers have 1-20 digits), 2-8 (occasionally up to 40) satisfiable ranges built from anchors so that they overlap, touch, repeat and come out of order, in all three spec forms, sized so that the statement requires multipart (plus a band between the thresholds); one case in 33 with 9 to 400 small ranges of a large entity (number of parts); entities of about 2^64 bytes with one range covering nearly everything (multipart length at the edge of u64); 0-4 entity headers of length 0-200 incl. duplicate names and bytes >= 0x80, occasionally dozens of headers or a value of several KB; with and without a matching If-Range; with and without another conditional header that is satisfied (If-Match own / * / list, If-None-Match other, If-Unmodified-Since later, If-Modified-Since earlier); chunked entity streams; optionally one astronomically large last part (checked on a drained prefix + arithmetic). Oracle: strict length-driven multipart parser written from RFC 2046/7233, reference range resolver, position-hashed content. Non-trivial = >= 2 parts parsed to the closing delimiter (or to the huge last part); distinct by fingerprint of the case.",
    assumptions: &[
        "harness entity honours the Entity contract",
        "a part longer than the drain cap must be the last one; the total is then checked arithmetically from the parsed prefix",
        "whether a set between the two thresholds is served as multipart or as 200 is C03's subject",
    ],
};

fn digits(x: u64) -> usize {
    x.to_string().len()
}

pub fn check(c: &Case, acc: &mut Acc) -> Check {
    let range = c.req.first("range").map(|v| v.to_vec());
    let Parsed::Strict(specs) = range_ref::parse_range(range.as_deref()) else {
        acc.count("range-not-strict-skipped");
        return Ok(());
    };
    if specs.iter().any(|s| matches!(s, range_ref::Spec::FromTo(a, b) if b < a)) {
        acc.count("inverted-spec-skipped");
        return Ok(());
    }
    let want = range_ref::resolve(&specs, c.ent.len);
    let Some((served, view)) = serve_view(c, acc, 0) else { return Ok(()) };
    if served.trace.panicked().is_some() {
        acc.count("aborted-by-panic-in-drain(see C13)");
        return Ok(());
    }
    let what = || {
        format!(
            "entity len={} headers={:?} plan={:?}; request {:?}",
            c.ent.len, c.ent.headers, c.ent.plan, c.req.headers
        )
    };
    let Kind::Multi { ranges, truncated, .. } = &view.kind else {
        acc.count(&format!("not-multipart:{}", view.status));
        return Ok(());
    };
    if let Some(i) = view.first_issue(&["multipart:", "fmt:part-", "bytes:multipart-part", "len:"]) {
        return fail(i.sig.clone(), format!("{}; {}", i.msg, what()));
    }
    let Some(ranges) = ranges else {
        return fail("multipart:unparsed", format!("multipart body could not be examined: {}; {}", served.trace.summary(), what()));
    };
    if ranges.len() >= 201 {
        acc.count("parts>=201");
    } else if ranges.len() >= 65 {
        acc.count("parts:65-200");
    } else if ranges.len() >= 9 {
        acc.count("parts:9-64");
    }
    let has_if_range = c.req.has("if-range");
    if *truncated {
        ensure!(
            ranges.len() <= want.len() && want[..ranges.len()] == ranges[..],
            "multipart:ranges-prefix",
            "parts begin {:?}, requested satisfiable ranges are {:?}; {}",
            ranges,
            want,
            what()
        );
        if ranges.len() == want.len() {
            if let (Some(total), Some(cl)) = (view.truncated_total, view.content_length) {
                ensure!(
                    total == cl as u128 || total == cl as u128 + 2,
                    "multipart:content-length-huge",
                    "multipart body with a huge last part is {total} bytes by structure, Content-Length {cl}; {}",
                    what()
                );
            }
        } else {
            acc.count("truncated-before-last-part");
        }
    } else {
        ensure!(
            *ranges == want,
            "multipart:ranges",
            "parts are {:?}, requested satisfiable ranges in order are {:?}; {}",
            ranges,
            want,
            what()
        );
        ensure!(served.trace.ended_cleanly(), "multipart:not-clean", "multipart body did not end cleanly: {}", served.trace.summary());
    }
    // Part headers: the entity's own headers iff the request had no If-Range.
    let mut ent_hdrs: Vec<(String, Vec<u8>)> = if has_if_range {
        vec![]
    } else {
        c.ent
            .headers
            .iter()
            .map(|(k, v)| {
                let mut val = &v.0[..];
                while let [b' ' | b'\t', r @ ..] = val {
                    val = r;
                }
                while let [r @ .., b' ' | b'\t'] = val {
                    val = r;
                }
                (k.to_ascii_lowercase(), val.to_vec())
            })
            .collect()
    };
    ent_hdrs.sort();
    for (i, ph) in view.part_headers.iter().enumerate() {
        let mut ph = ph.clone();
        ph.sort();
        ensure!(
            ph == ent_hdrs,
            if has_if_range { "multipart:part-headers-with-if-range" } else { "multipart:part-headers" },
            "part {i} carries headers {:?}, expected {:?} (If-Range present: {has_if_range}); {}",
            ph.iter().map(|(k, v)| (k.clone(), crate::util::show_bytes(v))).collect::<Vec<_>>(),
            ent_hdrs.iter().map(|(k, v)| (k.clone(), crate::util::show_bytes(v))).collect::<Vec<_>>(),
            what()
        );
    }
    // Labels.
    let maxd = ranges.iter().map(|r| digits(r.1)).max().unwrap_or(0).max(digits(c.ent.len));
    let overlapping = ranges.iter().enumerate().any(|(i, a)| ranges[..i].iter().any(|b| a.0 <= b.1 && b.0 <= a.1));
    let mut label = String::from("multipart");
    if *truncated {
        label.push_str("+huge-last");
    }
    if maxd >= 10 {
        label.push_str("+wide-numbers");
    }
    if !c.ent.headers.is_empty() {
        label.push_str("+entity-headers");
    }
    if has_if_range {
        label.push_str("+if-range");
    }
    if overlapping {
        acc.count("overlapping-ranges");
    }
    if maxd == 20 {
        acc.count("20-digit-numbers");
    }
    if served.trace.frames > 2 * ranges.len() + 1 {
        acc.count("part-in-several-chunks");
    }
    acc.note(&label, ranges.len() >= 2, fingerprint(c), || {
        json!({"entity_len": c.ent.len, "entity_headers": c.ent.headers, "request": c.req.headers, "parts": ranges, "content_length": view.content_length, "frames": served.trace.frames})
    });
    Ok(())
}

pub fn c06_lens() -> BoxedStrategy<u64> {
    prop_oneof![
        4 => 330u64..5000,
        2 => 5000u64..200_000,
        2 => proptest::sample::select(&[999u64, 1000, 1001, 9_999, 10_000, 99_999, 100_000, 999_999_999, 1_000_000_000, 9_999_999_999, 10_000_000_000,
            (1 << 32) - 1, 1 << 32, 999_999_999_999_999_999, 1_000_000_000_000_000_000, 9_999_999_999_999_999_999, 10_000_000_000_000_000_000,
            (1 << 63) - 1, 1 << 63, u64::MAX - 1, u64::MAX][..]),
        1 => any::<u64>().prop_map(|x| x.max(400)),
    ]
    .boxed()
}

fn anchored_ranges(l: u64) -> BoxedStrategy<(String, bool)> {
    // Returns (range header value, whether the last part is huge).
    (prop_oneof![10 => 2usize..=8, 1 => 9usize..=40], any::<bool>(), 0u8..10)
        .prop_flat_map(move |(n, huge_last, band)| {
            let n64 = n as u64;
            // band 0: between the thresholds (ranges + 80 each under L but not under L/2).
            let total_budget = if band == 0 { (l - 1).saturating_sub(80 * n64) } else { (l / 2).saturating_sub(80 * n64 + 1) };
            let per = (total_budget / n64).max(1);
            let per_small = per.min(700);
            let anchors: Vec<u64> = {
                let mut a = vec![0, 1, l / 2, l - 1, l.saturating_sub(per_small), l.saturating_sub(2 * per_small)];
                let mut p = 10u64;
                while p < l {
                    a.push(p - 1);
                    a.push(p);
                    p = p.saturating_mul(10);
                    if p == u64::MAX {
                        break;
                    }
                }
                a.retain(|x| *x < l);
                a
            };
            (
                vec((proptest::sample::select(anchors), 0..l, 1..=per_small, 0u8..12, any::<bool>()), n),
                Just(huge_last && l > 10_000_000 && band != 0),
                Just(per),
            )
        })
        .prop_map(move |(parts, huge_last, per)| {
            let mut s = String::from("bytes=");
            let mut prev: Option<(u64, u64)> = None;
            let n = parts.len();
            for (i, (anchor, rnd, len, form, space)) in parts.into_iter().enumerate() {
                if i > 0 {
                    s.push(',');
                    if space {
                        s.push(' ');
                    }
                }
                let start = if form % 3 == 0 { rnd } else { anchor };
                let mut len = len;
                if huge_last && i == n - 1 {
                    len = per.max(1);
                }
                let (a, b) = match (form, prev) {
                    (1, Some((pa, pb))) => (pa, pb),                                              // duplicate
                    (2, Some((_, pb))) if pb < l - 1 => (pb + 1, pb.saturating_add(len).min(l - 1)), // adjacent
                    (4, Some((pa, pb))) => (pa + (pb - pa) / 2, pb.saturating_add(len / 2).min(l - 1)), // overlapping
                    (5, Some((pa, _))) if pa > 0 => (pa.saturating_sub(len), pa - 1),             // just before (out of order)
                    _ => (start, start.saturating_add(len - 1).min(l - 1)),
                };
                let b = b.max(a).min(a.saturating_add(len.max(1) - 1));
                prev = Some((a, b));
                if b == l - 1 && form >= 8 {
                    if form % 2 == 0 {
                        s.push_str(&format!("{a}-"));
                    } else {
                        s.push_str(&format!("-{}", l - a));
                    }
                } else if b == l - 1 && form == 7 {
                    s.push_str(&format!("{a}-{}", b.saturating_add(5)));
                } else {
                    s.push_str(&format!("{a}-{b}"));
                }
            }
            (s, huge_last)
        })
        .boxed()
}

/// Entities of (nearly) 2^64-1 bytes with one range covering almost everything plus small ones:
/// the region where the exact multipart length does or does not fit into u64 (413 territory),
/// depending on the size of the entity's own headers.
fn near_overflow_strategy() -> BoxedStrategy<Case> {
    (
        proptest::sample::select(&[u64::MAX, u64::MAX - 1, u64::MAX - 100, u64::MAX - 1000][..]),
        1usize..=3,
        0u64..400,
        reqgen::entity_headers_strategy(),
        reqgen::plan_strategy(),
        any::<bool>(),
        0u8..3,
    )
        .prop_map(|(l, small, slack, headers, plan, big_first, form)| {
            // the big range: as long as the 80-bytes-per-part estimate allows, minus a slack
            let n = small as u64 + 1;
            let big_len = l.saturating_sub(80 * n + small as u64 + 1).saturating_sub(slack);
            let big = match form {
                0 => format!("0-{}", big_len - 1),
                1 => format!("{}-", l - big_len),
                _ => format!("-{}", big_len),
            };
            let mut specs: Vec<String> = (0..small as u64).map(|i| format!("{}-{}", i * 7, i * 7)).collect();
            if big_first {
                specs.insert(0, big);
            } else {
                specs.push(big);
            }
            Case {
                ent: EntitySpec {
                    len: l,
                    etag: None,
                    mtime: Mtime::None,
                    headers,
                    plan,
                    faults: vec![],
                    tail: vec![],
                    segments: 0,
                    counting_hint: false,
                    unfused_errors: false,
                },
                req: ReqSpec::get().with("range", format!("bytes={}", specs.join(","))),
            }
        })
        .boxed()
}

pub fn case_strategy() -> BoxedStrategy<Case> {
    prop_oneof![30 => main_strategy(), 2 => near_overflow_strategy(), 1 => many_parts_strategy()].boxed()
}

/// The *number* of parts: 9 to 400 small ranges of a large entity (every part's header, bytes and
/// order are checked like those of a three-part answer).
fn many_parts_strategy() -> BoxedStrategy<Case> {
    (
        proptest::sample::select(&[400_000u64, 10_000_000, 1 << 40][..]),
        prop_oneof![3 => 9usize..=64, 2 => 65usize..=210, 1 => 211usize..=400],
        any::<u64>(),
        reqgen::entity_headers_strategy(),
        reqgen::plan_strategy(),
    )
        .prop_map(|(len, n, salt, headers, plan)| {
            let mut v = String::from("bytes=");
            let mut s = salt;
            for i in 0..n {
                s = crate::util::splitmix64(s);
                if i > 0 {
                    v.push_str(if s & 1 == 0 { "," } else { ", " });
                }
                let a = (s >> 8) % len;
                let w = (s >> 40) % 4;
                match s % 9 {
                    0 => v.push_str(&format!("-{}", w + 1)),
                    _ => v.push_str(&format!("{a}-{}", a.saturating_add(w))),
                }
            }
            let headers: Vec<(String, Bs)> = headers.into_iter().take(4).filter(|(_, v)| v.0.len() < 300).collect();
            Case {
                ent: EntitySpec {
                    len,
                    etag: None,
                    mtime: Mtime::None,
                    headers,
                    plan,
                    faults: vec![],
                    tail: vec![],
                    segments: 0,
                    counting_hint: false,
                    unfused_errors: false,
                },
                req: ReqSpec::get().with("range", v),
            }
        })
        .boxed()
}

fn main_strategy() -> BoxedStrategy<Case> {
    (c06_lens(), reqgen::entity_headers_strategy(), reqgen::plan_strategy(), proptest::sample::select(reqgen::OPAQUES), 0u8..4, reqgen::mtime_strategy(), 0u8..14)
        .prop_flat_map(|(l, headers, plan, opaque, if_range_mode, mtime, other)| {
            (anchored_ranges(l), Just((l, headers, plan, opaque, if_range_mode, mtime, other)))
        })
        .prop_map(|((range, _huge), (l, headers, plan, opaque, if_range_mode, mtime, other))| {
            let etag = reqgen::quote(opaque, false);
            let mut req = ReqSpec::get().with("range", range);
            if if_range_mode == 0 {
                req = req.with("if-range", &etag.0);
            }
            // One case in seven: the entity also supplies a header under a name the response itself
            // carries (Accept-Ranges, Last-Modified - not among the names add_headers is told to
            // leave out): it belongs into every part like any other entity header.
            let mut headers = headers;
            match other % 7 {
                0 if headers.len() < 8 => headers.push(("accept-ranges".to_string(), Bs::s("bytes"))),
                1 if headers.len() < 8 && other >= 7 => headers.push(("last-modified".to_string(), Bs::s("Sun, 06 Nov 1994 08:49:37 GMT"))),
                _ => {}
            }
            // Half of the cases carry another conditional header that is satisfied (or cannot
            // apply): the multipart answer, part headers included, must be the same.
            if if_range_mode <= 1 {
                match other {
                    0 => req = req.with("if-match", &etag.0),
                    1 => req = req.with("if-match", "*"),
                    2 => req = req.with("if-none-match", "\"zzz-no-such-tag\""),
                    3 => req = req.with("if-match", [b"\"zzz\", ".as_slice(), &etag.0].concat()),
                    _ => {}
                }
            } else if let (3, Mtime::At(s, _)) = (if_range_mode, mtime) {
                if s < 1_600_000_000 {
                    match other {
                        0 | 1 => req = req.with("if-unmodified-since", reqgen::http_date(s + 86_400)),
                        2 | 3 => req = req.with("if-modified-since", reqgen::http_date(s.saturating_sub(86_400))),
                        _ => {}
                    }
                }
            }
            Case {
                ent: EntitySpec {
                    len: l,
                    etag: if if_range_mode <= 1 { Some(etag) } else { None },
                    mtime: if if_range_mode == 3 { mtime } else { Mtime::None },
                    headers,
                    plan,
                    faults: vec![],
                    tail: vec![],
                    segments: 0,
                    counting_hint: false,
                    unfused_errors: false,
                },
                req,
            }
        })
        .boxed()
}

pub fn run(cx: &Cx) -> Acc {
    let mut acc = Acc::new();
    let n = cx.tier.pick(1u64, 20u64);
    acc.merge(par_proptest(cx, "anchored", 120_000 * n, case_strategy, |c, acc| check(c, acc)));
    // The RFC's own multi-range examples, each with and without entity headers.
    let fixed: Vec<Case> = ["bytes=0-0,-1", "bytes=500-600,601-999", "bytes=500-700,601-999", "bytes=0-0, 9999-", "bytes=1-2,1-2,1-2,1-2,1-2,1-2,1-2,1-2"]
        .iter()
        .flat_map(|r| {
            [vec![], vec![("content-type".to_string(), Bs::s("text/plain"))]].into_iter().map(move |h| Case {
                ent: EntitySpec {
                    headers: h,
                    ..EntitySpec::simple(10000)
                },
                req: ReqSpec::get().with("range", r),
            })
        })
        .collect();
    acc.merge(par_units(cx, "rfc-examples", &fixed, false, "RFC 7233 multi-range examples", |cx, c, acc| {
        acc.run_case(cx, "rfc-examples", c, |acc| check(c, acc));
    }));
    acc
}

pub fn replay(_cx: &Cx, _phase: &str, case: &Value, acc: &mut Acc) -> Check {
    let c: Case = serde_json::from_value(case.clone()).map_err(|e| Fail {
        sig: "replay-decode".into(),
        msg: e.to_string(),
    })?;
    check(&c, acc)
}

pub fn health(acc: &Acc) -> Vec<String> {
    let mut v = Vec::new();
    let total: u64 = acc.labels.iter().filter(|(k, _)| k.starts_with("multipart")).map(|(_, v)| *v).sum();
    if total < 1000 {
        v.push(format!("only {total} multipart responses examined"));
    }
    for (needle, min) in [("+huge-last", 50), ("+wide-numbers", 100), ("+entity-headers", 100), ("+if-range", 100)] {
        let n: u64 = acc.labels.iter().filter(|(k, _)| k.contains(needle)).map(|(_, v)| *v).sum();
        if n < min {
            v.push(format!("only {n} cases with {needle}"));
        }
    }
    for c in ["overlapping-ranges", "20-digit-numbers", "part-in-several-chunks"] {
        if acc.counters.get(c).copied().unwrap_or(0) < 50 {
            v.push(format!("counter {c} is only {}", acc.counters.get(c).copied().unwrap_or(0)));
        }
    }
    v
}
