//! C14 — validators and entity metadata are exposed faithfully and round-trip.

use crate::drain::DrainOpts;
use crate::engine::*;
use crate::ensure;
use crate::entity::{EntitySpec, Mtime, PStep, ReqSpec, RespHead};
use crate::reqgen::{self, quote, T0};
use crate::served::{serve_case, Served};
use crate::util::{fingerprint, Bs};
use proptest::prelude::*;
use serde::{Deserialize, Serialize};
use serde_json::{json, Value};
use std::time::UNIX_EPOCH;

pub const META: Meta = Meta {
    id: "C14",
    level: "exploration",
    rule: "Two-request histories, enumerated: entity ETag {absent, strong, weak, strong with ', '} x mtime {absent, epoch, whole second, +1 ms, +1 ns, 1 ns before the next second, now + 1 day, year 2200} x entity header sets {none, one, three incl. a duplicate name} x first request {plain, single Range, unsatisfiable Range, If-None-Match: *, failing If-Match, Range + matching If-Range, multi-range falling back to 200 with and without matching If-Range, multipart with If-Range, Range + non-matching If-Range} x second request echoing each of the 32 subsets of {ETag->If-None-Match, Last-Modified->If-Modified-Since, strong ETag->If-Match, Last-Modified->If-Unmodified-Since, strong ETag->If-Range + Range}; proptest for other mtimes, tags and header sets. For multipart 206 answers without If-Range every part must carry every entity header and value. Oracle: header invariants on response 1 (Accept-Ranges, ETag identity, Date/Last-Modified relation, entity headers present/absent by status) and the cache-friendly answer to request 2. Non-trivial = sub-second or future mtime, or >= 2 validators echoed; distinct by fingerprint of history.",
    assumptions: &[
        "for modification times in the future the round trip is demanded only when the served Date did not move between the two requests (history re-run up to 3 times, otherwise counted as skipped)",
        "multipart 206 headers are C06's subject",
    ],
};

#[derive(Clone, Debug, Serialize, Deserialize)]
pub struct Hist {
    pub etag: Option<Bs>,
    pub mtime: Mtime,
    pub headers: Vec<(String, Bs)>,
    /// 0 plain, 1 range, 2 unsatisfiable range, 3 INM *, 4 failing If-Match, 5 range + If-Range,
    /// 6 several ranges that fall back to a complete 200, 7 the same with a matching If-Range,
    /// 8 several small ranges (multipart) with a matching If-Range, 9 non-matching If-Range + range
    pub first: u8,
    /// bitmask: 1 INM, 2 IMS, 4 IM, 8 IUS, 16 If-Range+Range, 32 a junk If-Modified-Since beside the
    /// echoed INM (when IMS is not echoed), 64 a junk If-Unmodified-Since beside the echoed IM, 128 a Range header without If-Range
    pub echo: u8,
}

const LEN: u64 = 64; // requests of shape 8 use an entity of 400 bytes so that multipart is chosen

fn entity(h: &Hist) -> EntitySpec {
    EntitySpec {
        len: if h.first == 8 { 400 } else { LEN },
        etag: h.etag.clone(),
        mtime: h.mtime,
        headers: h.headers.clone(),
        plan: vec![PStep::Chunk(40)],
        faults: vec![],
        tail: vec![],
        segments: 0,
        counting_hint: false,
        unfused_errors: false,
    }
}

fn first_request(h: &Hist) -> ReqSpec {
    let r = ReqSpec::get();
    match h.first {
        1 => r.with("range", "bytes=3-9"),
        2 => r.with("range", "bytes=64-"),
        3 => r.with("if-none-match", "*"),
        4 => r.with("if-match", "\"no-such-tag\""),
        5 => match &h.etag {
            Some(t) if !t.0.starts_with(b"W/") => r.with("range", "bytes=3-9").with("if-range", &t.0),
            _ => r.with("range", "bytes=3-9"),
        },
        6 => r.with("range", "bytes=0-30,31-63"),
        7 => match &h.etag {
            Some(t) if !t.0.starts_with(b"W/") => r.with("range", "bytes=0-30, 31-63").with("if-range", &t.0),
            _ => r.with("range", "bytes=0-30,40-"),
        },
        8 => match &h.etag {
            Some(t) if !t.0.starts_with(b"W/") => r.with("range", "bytes=0-0,5-5").with("if-range", &t.0),
            _ => r.with("range", "bytes=0-0,5-5"),
        },
        9 => r.with("range", "bytes=3-9").with("if-range", "\"some-other-tag\""),
        _ => r,
    }
}

fn parse_secs(v: &[u8]) -> Option<u64> {
    let s = std::str::from_utf8(v).ok()?;
    httpdate::parse_http_date(s).ok()?.duration_since(UNIX_EPOCH).ok().map(|d| d.as_secs())
}

fn serve(ent: &EntitySpec, req: &ReqSpec) -> Option<Served> {
    serve_case(ent, req, DrainOpts { extra_polls: 0, ..Default::default() }).ok()
}

fn check_first(h: &Hist, ent: &EntitySpec, r1: &RespHead, with_if_range: bool) -> Check {
    let st = r1.status;
    let what = || format!("history {}; response 1: {} {:?}", serde_json::to_string(h).unwrap_or_default(), st, r1.headers);
    ensure!(matches!(st, 200 | 206 | 304 | 412 | 416), format!("first-status-{st}"), "unexpected status for the first request; {}", what());
    let ar = r1.all("accept-ranges");
    ensure!(ar.len() == 1 && ar[0].eq_ignore_ascii_case(b"bytes"), format!("accept-ranges:{st}"), "Accept-Ranges is {:?}; {}", ar.iter().map(|v| crate::util::show_bytes(v)).collect::<Vec<_>>(), what());
    let et = r1.all("etag");
    match &h.etag {
        Some(t) => ensure!(et.len() == 1 && et[0] == &t.0[..], format!("etag-changed:{st}"), "ETag served {:?}, entity has {:?}; {}", et.iter().map(|v| crate::util::show_bytes(v)).collect::<Vec<_>>(), t, what()),
        None => ensure!(et.is_empty(), format!("etag-invented:{st}"), "entity has no ETag but {:?} was served; {}", et.iter().map(|v| crate::util::show_bytes(v)).collect::<Vec<_>>(), what()),
    }
    // Times before the epoch are outside the statement's modification times (its quantifier starts at
    // the epoch; this stack's HTTP-dates cannot carry them): only the other invariants apply.
    if !matches!(h.mtime, Mtime::None | Mtime::Before(..)) {
        let date = r1.one("date").ok().flatten().and_then(parse_secs);
        let lm = r1.one("last-modified").ok().flatten().and_then(parse_secs);
        let (Some(date), Some(lm)) = (date, lm) else {
            return fail(format!("date-or-last-modified-missing:{st}"), format!("Date / Last-Modified missing or unparseable; {}", what()));
        };
        ensure!(lm <= date, format!("last-modified-after-date:{st}"), "Last-Modified {lm} exceeds Date {date}; {}", what());
        let m_sec = match h.mtime {
            Mtime::At(s, _) => Some(s),
            _ => None,
        };
        match m_sec {
            Some(s) if s <= date => ensure!(lm == s, format!("last-modified-not-truncated-mtime:{st}"), "Last-Modified is {lm}, modification time truncated to the second is {s}; {}", what()),
            _ => {} // in the future: the statement only demands Last-Modified <= Date (checked above)
        }
    }
    // Entity headers.
    let mut want: Vec<(String, Vec<u8>)> = ent.headers.iter().map(|(k, v)| (k.to_ascii_lowercase(), v.0.clone())).collect();
    want.sort();
    let names: Vec<&str> = ent.headers.iter().map(|(k, _)| k.as_str()).collect();
    let mut have: Vec<(String, Vec<u8>)> = r1
        .headers
        .iter()
        .filter(|(k, _)| names.iter().any(|n| n.eq_ignore_ascii_case(k)))
        .map(|(k, v)| (k.to_ascii_lowercase(), v.0.clone()))
        .collect();
    have.sort();
    let multipart = r1.all("content-type").iter().any(|v| v.starts_with(b"multipart/"));
    if st == 200 || (st == 206 && !with_if_range && !multipart) {
        ensure!(have == want, format!("entity-headers-missing:{st}"), "entity supplies {:?}, response carries {:?}; {}", want, have, what());
    } else if !multipart {
        ensure!(have.is_empty(), format!("entity-headers-on-{st}{}", if with_if_range { "-if-range" } else { "" }), "response must carry none of the entity's headers but has {:?}; {}", have, what());
    }
    Ok(())
}

/// A multipart 206 without If-Range carries the entity's headers in every part (the top-level
/// Content-Type is the multipart one): every header, every value.
fn check_multipart_parts(ent: &EntitySpec, req: &ReqSpec, acc: &mut Acc) -> Check {
    if req.method != "GET" || req.has("if-range") {
        return Ok(());
    }
    let Ok(s) = serve_case(ent, req, DrainOpts { extra_polls: 0, max_bytes: 1 << 20, ..Default::default() }) else { return Ok(()) };
    if s.trace.panicked().is_some() {
        return Ok(());
    }
    let view = crate::served::interpret(&s, ent, false);
    let crate::served::Kind::Multi { ranges: Some(_), truncated: false, .. } = &view.kind else {
        acc.count("multipart-not-examined");
        return Ok(());
    };
    // values are compared modulo surrounding whitespace (a header line cannot carry it)
    fn trim(v: &[u8]) -> Vec<u8> {
        let mut v = v;
        while let [b' ' | b'\t', rest @ ..] = v {
            v = rest;
        }
        while let [rest @ .., b' ' | b'\t'] = v {
            v = rest;
        }
        v.to_vec()
    }
    let mut want: Vec<(String, Vec<u8>)> = ent.headers.iter().map(|(k, v)| (k.to_ascii_lowercase(), trim(&v.0))).collect();
    want.sort();
    for (i, ph) in view.part_headers.iter().enumerate() {
        let mut have: Vec<(String, Vec<u8>)> = ph.iter().map(|(k, v)| (k.to_ascii_lowercase(), trim(v))).collect();
        have.sort();
        ensure!(
            have == want,
            "entity-headers-missing:206-multipart",
            "part {i} of the multipart answer carries {:?}, the entity supplies {:?}; request {:?}",
            have.iter().map(|(k, v)| (k.clone(), crate::util::show_bytes(v))).collect::<Vec<_>>(),
            want.iter().map(|(k, v)| (k.clone(), crate::util::show_bytes(v))).collect::<Vec<_>>(),
            req.headers
        );
    }
    acc.count("multipart-parts-carry-entity-headers");
    Ok(())
}

pub fn check(h: &Hist, acc: &mut Acc) -> Check {
    let ent = entity(h);
    let req1 = first_request(h);
    let with_if_range = req1.has("if-range");
    let future = match h.mtime {
        Mtime::Before(..) => {
            // not expressible as an HTTP-date by this stack (httpdate starts at the epoch): outside
            // the statement's "modification time"; totality for such entities is C13's subject
            acc.count("pre-epoch-mtime-outside-premise");
            return Ok(());
        }
        Mtime::Future(..) => true,
        Mtime::At(s, _) => s + 5 >= reqgen::now_secs(),
        Mtime::None => false,
    };
    let mut attempt = 0;
    loop {
        attempt += 1;
        let Some(s1) = serve(&ent, &req1) else {
            acc.count("aborted-by-panic-in-serve(see C13)");
            return Ok(());
        };
        let r1 = &s1.head;
        check_first(h, &ent, r1, with_if_range)?;
        if attempt == 1 && r1.status == 206 && r1.all("content-type").iter().any(|v| v.starts_with(b"multipart/")) {
            check_multipart_parts(&ent, &req1, acc)?;
        }
        // Build the echo.
        let etag = r1.one("etag").ok().flatten().map(|v| v.to_vec());
        let lm = r1.one("last-modified").ok().flatten().map(|v| v.to_vec());
        let strong = etag.as_ref().map_or(false, |t| !t.starts_with(b"W/"));
        let mut req2 = ReqSpec::get();
        let mut used = 0u8;
        if h.echo & 1 != 0 {
            if let Some(t) = &etag {
                req2 = req2.with("if-none-match", t);
                used |= 1;
            }
        }
        if h.echo & 2 != 0 {
            if let Some(d) = &lm {
                req2 = req2.with("if-modified-since", d);
                used |= 2;
            }
        }
        if h.echo & 4 != 0 && strong {
            req2 = req2.with("if-match", etag.as_ref().unwrap());
            used |= 4;
        }
        if h.echo & 8 != 0 {
            if let Some(d) = &lm {
                req2 = req2.with("if-unmodified-since", d);
                used |= 8;
            }
        }
        if h.echo & 16 != 0 && strong {
            req2 = req2.with("if-range", etag.as_ref().unwrap()).with("range", "bytes=1-2");
            used |= 16;
        }
        // A plain Range header beside the echoed validators (no If-Range): a validator that says
        // "not modified" wins over the range.
        if h.echo & 128 != 0 && used & 16 == 0 {
            req2 = req2.with("range", "bytes=0-1");
        }
        // A date header that is not an HTTP-date beside the echoed tag header that makes it ignored
        // (RFC 7232 3.3 / 3.4): the cache-friendly answer must not change.
        if h.echo & 32 != 0 && used & 1 != 0 && used & 2 == 0 {
            req2 = req2.with("if-modified-since", "Sun, 06 Nov 1994 08:49:37 GMT; length=10");
        }
        if h.echo & 64 != 0 && used & 4 != 0 && used & 8 == 0 {
            req2 = req2.with("if-unmodified-since", "1994-11-06T08:49:37Z");
        }
        let Some(s2) = serve(&ent, &req2) else {
            acc.count("aborted-by-panic-in-serve(see C13)");
            return Ok(());
        };
        if future && used & (2 | 8) != 0 {
            let d1 = r1.one("date").ok().flatten().map(|v| v.to_vec());
            let d2 = s2.head.one("date").ok().flatten().map(|v| v.to_vec());
            if d1 != d2 {
                if attempt < 3 {
                    continue;
                }
                acc.count("future-mtime-clock-moved-skipped");
                return Ok(());
            }
        }
        let st2 = s2.head.status;
        let what = || {
            format!(
                "history {}; response 1: {} {:?}; request 2 {:?}; response 2: {} {:?}",
                serde_json::to_string(h).unwrap_or_default(),
                r1.status,
                r1.headers,
                req2.headers,
                st2,
                s2.head.headers
            )
        };
        let sig_echo = format!("echo{used:02}");
        if used & 1 != 0 || used & 2 != 0 {
            ensure!(st2 == 304, format!("echo-not-304:{sig_echo}:{st2}"), "echoing If-None-Match / If-Modified-Since must give 304, got {st2}; {}", what());
        } else {
            ensure!(st2 != 412, format!("echo-412:{sig_echo}"), "echoing If-Match / If-Unmodified-Since must not give 412; {}", what());
            if used & 16 != 0 {
                let cr = s2.head.one_str("content-range").ok().flatten();
                ensure!(
                    st2 == 206 && cr.as_deref() == Some(&format!("bytes 1-2/{}", ent.len)[..]) && s2.trace.body == crate::util::content(1, 2),
                    format!("echo-if-range-not-206:{sig_echo}:{st2}"),
                    "echoing the strong ETag in If-Range must give the requested 206; {}",
                    what()
                );
            } else if h.echo & 128 != 0 {
                ensure!(st2 == 206, format!("echo-range-not-206:{sig_echo}:{st2}"), "a satisfiable Range and no failing precondition: expected 206, got {st2}; {}", what());
            } else {
                ensure!(st2 == 200, format!("echo-not-200:{sig_echo}:{st2}"), "no range requested and no failing precondition: expected 200, got {st2}; {}", what());
            }
        }
        let subsec = matches!(h.mtime, Mtime::At(_, n) if n > 0);
        let label = format!("first-{}:second-{}", r1.status, st2);
        acc.note(&label, subsec || future || used.count_ones() >= 2, fingerprint(h), || json!({"history": h, "request2": req2.headers, "status1": r1.status, "status2": st2}));
        return Ok(());
    }
}

fn mtimes() -> Vec<Mtime> {
    vec![
        Mtime::None,
        Mtime::At(0, 0),
        Mtime::At(T0, 0),
        Mtime::At(T0, 1_000_000),
        Mtime::At(T0, 1),
        Mtime::At(T0, 999_999_999),
        Mtime::Future(86_400, 0),
        Mtime::Future(86_400, 500_000_000),
        Mtime::At(7_258_118_400, 0),
        // just written: this very second, and half a minute ago
        Mtime::At(reqgen::now_secs(), 0),
        Mtime::At(reqgen::now_secs() - 30, 500_000_000),
    ]
}

fn header_sets() -> Vec<Vec<(String, Bs)>> {
    vec![
        vec![],
        vec![("content-type".into(), Bs::s("text/plain"))],
        vec![("x-a".into(), Bs::s("1")), ("content-language".into(), Bs::s("en")), ("x-a".into(), Bs::s("2"))],
    ]
}

fn random_strategy() -> BoxedStrategy<Hist> {
    (reqgen::etag_strategy(), reqgen::mtime_strategy(), reqgen::entity_headers_strategy(), 0u8..10, any::<u8>())
        .prop_map(|(etag, mtime, headers, first, echo)| Hist {
            etag,
            mtime,
            headers,
            first,
            echo,
        })
        .boxed()
}

/// Header invariants of the first response on arbitrary generated requests (all six request
/// headers, any entity length).
fn check_any_request(c: &crate::props::c01::Case, acc: &mut Acc) -> Check {
    if c.req.method != "GET" && c.req.method != "HEAD" {
        return Ok(());
    }
    let Some(s1) = serve_case(&c.ent, &c.req, DrainOpts { extra_polls: 0, max_bytes: 0, max_frames: 0, ..Default::default() }).ok() else {
        acc.count("aborted-by-panic-in-serve(see C13)");
        return Ok(());
    };
    if !matches!(s1.head.status, 200 | 206 | 304 | 412 | 416) {
        acc.count(&format!("status-{}-skipped", s1.head.status));
        return Ok(());
    }
    let h = Hist {
        etag: c.ent.etag.clone(),
        mtime: c.ent.mtime,
        headers: c.ent.headers.clone(),
        first: 255,
        echo: 0,
    };
    // entity headers with names serve() itself sets would be ambiguous: skip those entities
    if c.ent.headers.iter().any(|(k, _)| ["content-length", "content-range", "etag", "date", "last-modified", "accept-ranges"].contains(&k.to_ascii_lowercase().as_str())) {
        return Ok(());
    }
    check_first(&h, &c.ent, &s1.head, c.req.has("if-range")).map_err(|f| Fail {
        sig: f.sig,
        msg: format!("{}; request {:?}", f.msg, c.req.headers),
    })?;
    if s1.head.status == 206 && s1.head.all("content-type").iter().any(|v| v.starts_with(b"multipart/")) {
        check_multipart_parts(&c.ent, &c.req, acc)?;
    }
    acc.note(&format!("any-request:{}", s1.head.status), true, fingerprint(c), || json!({"request": c.req, "status": s1.head.status, "headers": s1.head.headers}));
    Ok(())
}

pub fn run_all(cx: &Cx) -> Acc {
    let mut acc = Acc::new();
    let mut units = Vec::new();
    for etag in [None, Some(quote(b"foo", false)), Some(quote(b"foo", true)), Some(quote(b"a, b", false))] {
        for m in mtimes() {
            units.push((etag.clone(), m));
        }
    }
    acc.merge(par_units(cx, "enumerated", &units, true, "etag x mtime x header sets x 10 first requests x 32 echo subsets", |cx, (etag, m), acc| {
        for headers in header_sets() {
            for first in 0..10 {
                for echo in 0..=255u8 {
                    if echo & 128 != 0 && (echo & 16 != 0 || echo & 0x60 != 0) {
                        continue; // the plain Range only beside plain echoes
                    }
                    // the junk-date bits only where they add a header
                    if (echo & 32 != 0 && (echo & 1 == 0 || echo & 2 != 0)) || (echo & 64 != 0 && (echo & 4 == 0 || echo & 8 != 0)) {
                        continue;
                    }
                    let h = Hist {
                        etag: etag.clone(),
                        mtime: *m,
                        headers: headers.clone(),
                        first,
                        echo,
                    };
                    acc.run_case(cx, "enumerated", &h, |acc| check(&h, acc));
                }
            }
        }
    }));
    let n = cx.tier.pick(1u64, 20u64);
    acc.merge(par_proptest(cx, "random", 130_000 * n, random_strategy, |h, acc| check(h, acc)));
    acc.merge(par_proptest(
        cx,
        "any-request",
        150_000 * n,
        || {
            let p = reqgen::Profile { range: 7, if_range: 4, cond: 2, methods: false, max_specs: 4, multipart_bias: true };
            reqgen::case_strategy(reqgen::len_strategy(), p).prop_map(|(ent, req)| crate::props::c01::Case { ent, req })
        },
        |c, acc| check_any_request(c, acc),
    ));
    acc
}

pub fn replay(_cx: &Cx, phase: &str, case: &Value, acc: &mut Acc) -> Check {
    if phase == "any-request" {
        let c: crate::props::c01::Case = serde_json::from_value(case.clone()).map_err(|e| Fail { sig: "replay-decode".into(), msg: e.to_string() })?;
        return check_any_request(&c, acc);
    }
    let h: Hist = serde_json::from_value(case.clone()).map_err(|e| Fail {
        sig: "replay-decode".into(),
        msg: e.to_string(),
    })?;
    check(&h, acc)
}

pub fn health(acc: &Acc) -> Vec<String> {
    let mut v = Vec::new();
    for l in ["first-200:second-304", "first-206:second-304", "first-304:second-200", "first-412:second-206", "first-416:second-304", "first-200:second-206"] {
        if acc.label(l) < 30 {
            v.push(format!("label {l} seen only {} times", acc.label(l)));
        }
    }
    v
}
