//! C05 — If-Range: partial content only against an identical strong validator.

use crate::engine::*;
use crate::ensure;
use crate::entity::{EntitySpec, Mtime, PStep, ReqSpec};
use crate::props::c01::{opts_for, Case};
use crate::reqgen::{self, http_date, quote, T0};
use crate::served::{interpret, serve_case, Kind, View};
use crate::util::{fingerprint, Bs};
use proptest::prelude::*;
use serde_json::{json, Value};

pub const META: Meta = Meta {
    id: "C05",
    level: "exploration",
    rule: "Metamorphic triples: the request as given, without If-Range (R0), and without If-Range and Range (R-). Enumerated: entity ETag {absent, strong, weak, empty, Latin-1, non-UTF-8, U+FFFD, backslashes} x mtime {absent, T} x If-Range in {identical, W/ toggled on either side, different tag, one character shorter / longer, one byte changed (first / middle / last, obs-text stays obs-text), upper/lower-cased, trailing space, unquoted, empty, HTTP-date before/equal/after Last-Modified in all three date formats, garbage} x Range in {single, multipart-eligible multiple, unsatisfiable, garbage, absent} x {GET, HEAD} x optional extra conditional; If-Range repeated over 2-3 field lines none of which is the strong tag (never partial); proptest for other tags, lengths and ranges. Oracle: identical strong tag => same status/Content-Range/Content-Length/ranges/bytes as R0; date equal to Last-Modified => as R0 or as R-; anything else => as R- (so never 206 or 416). Non-trivial = Range present and satisfiable and If-Range a match or a near-miss; distinct by fingerprint of case.",
    assumptions: &["harness entity honours the Entity contract", "entity headers are not compared (C14 / C06 cover them)"],
};

fn run(c: &Case, req: &ReqSpec, acc: &mut Acc) -> Option<View> {
    let is_head = req.method == "HEAD";
    match serve_case(&c.ent, req, opts_for(&c.ent, 0)) {
        Ok(s) => {
            if s.trace.panicked().is_some() {
                acc.count("aborted-by-panic-in-drain(see C13)");
                return None;
            }
            Some(interpret(&s, &c.ent, is_head))
        }
        Err(_) => {
            acc.count("aborted-by-panic-in-serve(see C13)");
            None
        }
    }
}

fn same(a: &View, b: &View) -> bool {
    // Multipart bodies legitimately differ in length: parts omit the entity headers under If-Range.
    let both_multi = matches!(a.kind, Kind::Multi { .. }) && matches!(b.kind, Kind::Multi { .. });
    a.status == b.status && a.kind == b.kind && (both_multi || a.content_length == b.content_length)
}

fn describe(v: &View) -> String {
    format!("{} {:?} CL={:?}", v.status, v.kind, v.content_length)
}

pub fn check(c: &Case, acc: &mut Acc) -> Check {
    let Some(ir) = c.req.first("if-range").map(|v| v.to_vec()) else {
        acc.count("no-if-range-skipped");
        return Ok(());
    };
    let r0 = c.req.without(&["if-range"]);
    let rm = c.req.without(&["if-range", "range"]);
    let Some(got) = run(c, &c.req, acc) else { return Ok(()) };
    let Some(v0) = run(c, &r0, acc) else { return Ok(()) };
    let Some(vm) = run(c, &rm, acc) else { return Ok(()) };
    let strong_match = c.ent.etag_is_strong() && c.ent.etag.as_ref().map_or(false, |t| t.0 == ir);
    let date_match = match (c.ent.mtime, std::str::from_utf8(&ir).ok().and_then(|s| httpdate::parse_http_date(s).ok())) {
        (Mtime::At(s, _), Some(d)) => d.duration_since(std::time::UNIX_EPOCH).map_or(false, |d| d.as_secs() == s),
        (Mtime::Future(..), Some(_)) => true, // cannot know the clamped value: accept either
        _ => false,
    };
    let what = || {
        format!(
            "entity len={} etag={:?} mtime={:?}; request {} {:?}; got {}; without If-Range {}; without If-Range and Range {}",
            c.ent.len,
            c.ent.etag,
            c.ent.mtime,
            c.req.method,
            c.req.headers,
            describe(&got),
            describe(&v0),
            describe(&vm)
        )
    };
    let class;
    if strong_match {
        class = "identical-strong";
        ensure!(same(&got, &v0), format!("match-not-honoured:{}->{}", v0.status, got.status), "If-Range is the entity's strong tag, the Range must be honoured as without If-Range; {}", what());
        if let Some(i) = got.first_issue(&["bytes:"]) {
            return fail(format!("match:{}", i.sig), format!("{}; {}", i.msg, what()));
        }
    } else if date_match {
        class = "date-equal";
        ensure!(same(&got, &v0) || same(&got, &vm), format!("date-equal:{}", got.status), "If-Range is the Last-Modified date: answer must be that with or without the Range; {}", what());
    } else {
        class = "mismatch";
        ensure!(
            same(&got, &vm),
            format!("mismatch-honoured:{}->{}", vm.status, got.status),
            "If-Range does not match, the Range must be ignored; {}",
            what()
        );
        ensure!(
            !matches!(got.kind, Kind::Single { .. } | Kind::Multi { .. } | Kind::Unsat { .. }),
            format!("mismatch-partial:{}", got.status),
            "If-Range does not match but the answer is partial / 416; {}",
            what()
        );
        if let Some(i) = got.first_issue(&["bytes:", "fmt:200-with-content-range"]) {
            return fail(format!("mismatch:{}", i.sig), format!("{}; {}", i.msg, what()));
        }
    }
    let range_satisfiable = matches!(v0.kind, Kind::Single { .. } | Kind::Multi { .. });
    let near = c.ent.etag.as_ref().map_or(false, |t| {
        let t = &t.0;
        ir != *t && (ir.eq_ignore_ascii_case(t) || reqgen::toggle_weak(t) == ir || (ir.len() + 2 >= t.len() && (t.starts_with(&ir[..ir.len().min(t.len()).saturating_sub(1)]))))
    });
    let label = format!(
        "{class}:{}",
        match v0.kind {
            Kind::Single { .. } => "range-single",
            Kind::Multi { .. } => "range-multi",
            Kind::Unsat { .. } => "range-unsat",
            Kind::Full => "range-none-or-ignored",
            Kind::Other => "other-status",
        }
    );
    acc.note(&label, range_satisfiable && (strong_match || near || date_match), fingerprint(c), || {
        json!({"entity_etag": c.ent.etag, "mtime": c.ent.mtime, "request": c.req, "got": describe(&got), "without_if_range": describe(&v0)})
    });
    Ok(())
}

fn if_range_variants(etag: &Option<Bs>, mtime: Mtime) -> Vec<Vec<u8>> {
    let mut v: Vec<Vec<u8>> = vec![b"\"other\"".to_vec(), b"W/\"other\"".to_vec(), b"garbage".to_vec(), b"".to_vec(), b"\"".to_vec(), b"W/".to_vec(), b"*".to_vec(), b"\"\"".to_vec()];
    if let Some(t) = etag {
        let t = &t.0;
        v.push(t.clone());
        v.push(reqgen::toggle_weak(t));
        v.push(t[..t.len() - 1].to_vec());
        v.push(t[1..].to_vec());
        v.push([&t[..], b" "].concat());
        v.push([b" ", &t[..]].concat());
        v.push(t.to_ascii_uppercase());
        v.push(t.to_ascii_lowercase());
        let mut longer = t.clone();
        longer.insert(longer.len() - 1, b'x');
        v.push(longer);
        v.extend(reqgen::one_byte_off(t));
        let mut shorter = t.clone();
        if shorter.len() > 3 {
            shorter.remove(shorter.len() - 2);
            v.push(shorter);
        }
        v.push(opaque_unquoted(t));
        v.push([&t[..], b", ", &t[..]].concat());
    }
    let base = match mtime {
        Mtime::At(s, _) => s,
        _ => T0,
    };
    for d in [base - 1, base, base + 1] {
        v.push(http_date(d).into_bytes());
        for f in reqgen::obsolete_date_forms(d) {
            v.push(f.into_bytes());
        }
    }
    v
}

fn opaque_unquoted(t: &[u8]) -> Vec<u8> {
    let t = t.strip_prefix(b"W/").unwrap_or(t);
    t[1..t.len() - 1].to_vec()
}

const RANGES: &[Option<&str>] = &[
    Some("bytes=0-0"),
    Some("bytes=5-"),
    Some("bytes=-7"),
    Some("bytes=0-1,500-501"),
    Some("bytes=10-19, 900-, 0-0"),
    Some("bytes=2000-"),
    Some("bytes=a-b"),
    Some("items=0-1"),
    None,
];

fn random_strategy() -> BoxedStrategy<Case> {
    let p = reqgen::Profile {
        range: 9,
        if_range: 10,
        cond: 1,
        methods: false,
        max_specs: 4,
        multipart_bias: true,
    };
    (reqgen::stable_case_strategy(reqgen::small_len_strategy(), p), any::<bool>())
        .prop_map(|((ent, mut req), head)| {
            if head {
                req.method = "HEAD".into();
            }
            Case { ent, req }
        })
        .boxed()
}

pub fn run_all(cx: &Cx) -> Acc {
    let mut acc = Acc::new();
    let mut units = Vec::new();
    for etag in [None, Some(quote(b"foo", false)), Some(quote(b"foo", true)), Some(quote(b"a, b", false)), Some(quote(b"", false)), Some(quote(b"v\xe9", false)), Some(quote(b"\x80\xff", false)), Some(quote(b"\xef\xbf\xbd", false)), Some(quote(b"C:\\dir\\", false))] {
        for mtime in [Mtime::None, Mtime::At(T0, 0), Mtime::At(T0, 250_000_000)] {
            units.push((etag.clone(), mtime));
        }
    }
    acc.merge(par_units(cx, "enumerated", &units, true, "etag x mtime x If-Range variants x 9 Range values x GET/HEAD x {no extra conditional, If-None-Match other, If-Match own}", |cx, (etag, mtime), acc| {
        for ir in if_range_variants(etag, *mtime) {
            if http::HeaderValue::from_bytes(&ir).is_err() {
                continue;
            }
            for range in RANGES {
                for method in ["GET", "HEAD"] {
                    for extra in 0..3 {
                        // If-Range before Range for GET, after it for HEAD (both orders of the two lines)
                        let mut req = ReqSpec::get().method(method);
                        if method == "GET" {
                            req = req.with("if-range", &ir);
                        }
                        if let Some(r) = range {
                            req = req.with("range", r);
                        }
                        if method != "GET" {
                            req = req.with("if-range", &ir);
                        }
                        match extra {
                            1 => req = req.with("if-none-match", "\"zzz\""),
                            2 => {
                                if let Some(t) = etag {
                                    req = req.with("if-match", &t.0);
                                }
                            }
                            _ => {}
                        }
                        let c = Case {
                            ent: EntitySpec {
                                len: 1000,
                                etag: etag.clone(),
                                mtime: *mtime,
                                headers: vec![("content-type".into(), Bs::s("text/plain"))],
                                plan: vec![PStep::Chunk(300)],
                                faults: vec![],
                                tail: vec![],
                                segments: 0,
                                counting_hint: false,
                                unfused_errors: false,
                            },
                            req,
                        };
                        acc.run_case(cx, "enumerated", &c, |acc| check(&c, acc));
                    }
                }
            }
        }
    }));
    // If-Range on two or three field lines none of which is the entity's strong tag (twice the same
    // non-matching value, near misses, dates): never a partial answer, however the lines are read.
    let line_etags: Vec<Option<Bs>> = vec![Some(quote(b"foo", false)), Some(quote(b"foo", true)), None];
    acc.merge(par_units(cx, "repeated-if-range-lines", &line_etags, true, "2-3 If-Range field lines, all non-matching (variants of the tag, other tags, dates, garbage) x 9 Range values x GET/HEAD", |cx, etag, acc| {
        let strong = etag.as_ref().filter(|t| !t.0.starts_with(b"W/")).map(|t| t.0.clone());
        let vals: Vec<Vec<u8>> = if_range_variants(etag, Mtime::At(T0, 0)).into_iter().filter(|v| Some(v) != strong.as_ref() && http::HeaderValue::from_bytes(v).is_ok()).take(14).collect();
        for (i, a) in vals.iter().enumerate() {
            for (j, b) in vals.iter().enumerate() {
                if (i + j) % 3 != 0 && i != j {
                    continue; // a third of the pairs, and every value twice
                }
                for third in [false, true] {
                    for range in RANGES {
                        for method in ["GET", "HEAD"] {
                            let mut req = ReqSpec::get().method(method).with("if-range", a).with("if-range", b);
                            if third {
                                req = req.with("if-range", a);
                            }
                            if let Some(r) = range {
                                req = req.with("range", r);
                            }
                            let c = Case {
                                ent: EntitySpec {
                                    len: 1000,
                                    etag: etag.clone(),
                                    mtime: Mtime::At(T0, 0),
                                    headers: vec![("content-type".into(), Bs::s("text/plain"))],
                                    plan: vec![PStep::Chunk(300)],
                                    faults: vec![],
                                    tail: vec![],
                                    segments: 0,
                                    counting_hint: false,
                                    unfused_errors: false,
                                },
                                req,
                            };
                            acc.run_case(cx, "repeated-if-range-lines", &c, |acc| check(&c, acc));
                        }
                    }
                }
            }
        }
    }));
    let n = cx.tier.pick(1u64, 15u64);
    acc.merge(par_proptest(cx, "random", 200_000 * n, random_strategy, |c, acc| check(c, acc)));
    acc
}

pub fn replay(_cx: &Cx, _phase: &str, case: &Value, acc: &mut Acc) -> Check {
    let c: Case = serde_json::from_value(case.clone()).map_err(|e| Fail {
        sig: "replay-decode".into(),
        msg: e.to_string(),
    })?;
    check(&c, acc)
}

pub fn health(acc: &Acc) -> Vec<String> {
    let mut v = Vec::new();
    for l in ["identical-strong:range-single", "identical-strong:range-multi", "mismatch:range-single", "mismatch:range-multi", "mismatch:range-unsat", "date-equal:range-single"] {
        if acc.label(l) < 30 {
            v.push(format!("label {l} seen only {} times", acc.label(l)));
        }
    }
    v
}
