//! C12 — body size hints and the end-of-stream flag are truthful at every step.
//! C20 — terminated bodies stay terminated.
//! Both are evaluated on the drain traces of the other engines (serve with and without faults,
//! streaming bodies, `Body::from` conversions).

use crate::drain::{check_eos_truthful, check_hints, check_hints_after_error, check_terminated_stays, drain, DrainOpts, Ev, Trace};
use crate::engine::*;
use crate::entity::{EntitySpec, FaultKind, HarnessError, ReqSpec};
use crate::props::c01::{opts_for, Case};
use crate::props::c07::{self, FCase};
use crate::reqgen::{self, Profile};
use crate::served::{serve_case, ServeFailure};
use crate::util::fingerprint;
use bytes::Bytes;
use proptest::prelude::*;
use serde_json::{json, Value};

pub const META_C12: Meta = Meta {
    id: "C12",
    level: "exploration",
    rule: "Per-step monitor on the drain traces of: (a) serve() on generated (entity, request) cases incl. HEAD and non-GET methods, (b) the C07 fault enumeration restricted to contract-honouring streams (no fault, or an early Err; a body that comes to a clean end when polled again after its error must have hinted a lower bound of 0 in between), (c) streaming bodies (identity and gzip) under generated write/flush/abort/drop histories with polls in between, (d) every Body::from conversion and Body::empty over lengths 0..=4096. Oracle, retrospective: for a trace that ended cleanly with T bytes, at each step lower <= T - delivered <= upper, and serve / Body::from bodies must be exact; once is_end_stream() was true no later poll yields data or an error; a streaming body never reports end-of-stream while the model holds undelivered chunks or an undelivered abort. Non-trivial = trace with >= 3 samples in which the hint changed; distinct by fingerprint of case.",
    assumptions: &[
        "harness entity honours the Entity contract in the traces used (an early Err is within the contract; short/long streams are excluded)",
        "bodies over the drain cap are checked on a prefix: exact hint == announced - delivered",
    ],
};

pub const META_C20: Meta = Meta {
    id: "C20",
    level: "exploration",
    rule: "Every body explored by the other engines is polled k more times (k in 1..=4) after its terminal event: serve() bodies after a clean end (200, 206, multipart, 304/400/405/412/416 fixed bodies), after an entity error, a too-short and a too-long stream at every fault position of the C07 enumeration; streaming bodies after clean end and after abort; Body::from bodies. Harness entity streams are fused (the statement's proviso). Oracle: no panic, no data byte in any extra poll. Non-trivial = extra polls after an error or abort, or after a multipart body; distinct by fingerprint of case.",
    assumptions: &["the entity's own streams stay finished once finished or failed (harness streams are fused)"],
};

fn hint_changed<E>(t: &Trace<E>) -> bool {
    t.steps.len() >= 3 && t.steps.windows(2).any(|w| w[0].lower != w[1].lower)
}

// ---------------------------------------------------------------------------------------------
// (a) serve on generated cases.

fn serve_strategy() -> BoxedStrategy<Case> {
    let p = Profile {
        range: 7,
        if_range: 2,
        cond: 3,
        methods: true,
        max_specs: 4,
        multipart_bias: true,
    };
    reqgen::case_strategy(reqgen::len_strategy(), p)
        .prop_map(|(ent, req)| Case { ent, req })
        .boxed()
}

fn serve_label(status: u16, multipart: bool) -> String {
    if multipart {
        "serve:multipart".into()
    } else {
        format!("serve:{status}")
    }
}

pub fn check_serve_pub(c: &Case, acc: &mut Acc, c20: bool) -> Check {
    check_serve(c, acc, c20)
}

fn check_serve(c: &Case, acc: &mut Acc, c20: bool) -> Check {
    let extra = 1 + (fingerprint(c) % 4) as usize;
    let served = match serve_case(&c.ent, &c.req, opts_for(&c.ent, extra)) {
        Ok(s) => s,
        Err(ServeFailure::BadRequestSpec) => return Ok(()),
        Err(ServeFailure::Panic(_)) => {
            acc.count("aborted-by-panic-in-serve(see C13)");
            return Ok(());
        }
    };
    let t = &served.trace;
    let multipart = served.head.all("content-type").iter().any(|v| v.starts_with(b"multipart/"));
    let label = serve_label(served.head.status, multipart);
    let ctx = || {
        // a Range header of hundreds of KB is cut in the message (the replay file holds the case)
        let hs: Vec<(String, String)> = c.req.headers.iter().map(|(k, v)| (k.clone(), if v.0.len() > 400 { format!("{}...({} bytes)", crate::util::show_bytes(&v.0[..200]), v.0.len()) } else { crate::util::show_bytes(&v.0) })).collect();
        format!("entity len={} plan={:?}; request {} {:?}", c.ent.len, c.ent.plan, c.req.method, hs)
    };
    if c20 {
        if t.steps.iter().any(|s| matches!(s.ev, Ev::Panic(_))) {
            acc.count("aborted-by-panic-in-drain(see C13)");
            return Ok(());
        }
        check_terminated_stays(t, &label).map_err(|f| Fail { sig: f.sig, msg: format!("{}; {}", f.msg, ctx()) })?;
        acc.note(&label, multipart && !t.extra.is_empty(), fingerprint(c), || json!({"request": c.req, "entity_len": c.ent.len, "trace": t.summary()}));
    } else {
        if t.panicked().is_some() {
            acc.count("aborted-by-panic(see C13/C20)");
            return Ok(());
        }
        check_eos_truthful(t, &label).map_err(|f| Fail { sig: f.sig, msg: format!("{}; {}", f.msg, ctx()) })?;
        check_hints(t, true, &label).map_err(|f| Fail { sig: f.sig, msg: format!("{}; {}", f.msg, ctx()) })?;
        if t.capped {
            let announced = served.hint0.0;
            t.check_exact_against(announced, &label).map_err(|f| Fail { sig: f.sig, msg: format!("{}; {}", f.msg, ctx()) })?;
        }
        acc.note(&label, hint_changed(t), fingerprint(c), || json!({"request": c.req, "entity_len": c.ent.len, "trace": t.summary()}));
    }
    Ok(())
}

// ---------------------------------------------------------------------------------------------
// (b) fault enumeration.

fn check_fault(c: &FCase, acc: &mut Acc, c20: bool) -> Check {
    if !c20 && c.faults.iter().any(|f| f.kind != FaultKind::Error) {
        return Ok(()); // outside the entity contract: not C12's subject
    }
    let Some(run) = c07::run_fault_case(c, acc) else { return Ok(()) };
    let t = &run.faulty.trace;
    let label = format!("fault:{}", c07::fault_label(c));
    let ctx = || format!("case {}", serde_json::to_string(c).unwrap_or_default());
    if c20 {
        if t.steps.iter().any(|s| matches!(s.ev, Ev::Panic(_))) {
            acc.count("aborted-by-panic-before-terminal(see C07)");
            return Ok(());
        }
        check_terminated_stays(t, &label).map_err(|f| Fail { sig: f.sig, msg: format!("{}; {}", f.msg, ctx()) })?;
        let after_error = t.ended_err().is_some() && !t.extra.is_empty();
        acc.note(&label, after_error, fingerprint(c), || json!({"case": c, "trace": t.summary()}));
    } else {
        if t.steps.iter().any(|s| matches!(s.ev, Ev::Panic(_))) {
            acc.count("aborted-by-panic(see C07)");
            return Ok(());
        }
        // a panic in the extra polls is C20's; the eos flag is still judged on what was seen.
        check_eos_truthful(t, &label).map_err(|f| Fail { sig: f.sig, msg: format!("{}; {}", f.msg, ctx()) })?;
        check_hints(t, true, &label).map_err(|f| Fail { sig: f.sig, msg: format!("{}; {}", f.msg, ctx()) })?;
        check_hints_after_error(t, &label).map_err(|f| Fail { sig: f.sig, msg: format!("{}; {}", f.msg, ctx()) })?;
        acc.note(&label, hint_changed(t), fingerprint(c), || json!({"case": c, "trace": t.summary()}));
    }
    Ok(())
}

// ---------------------------------------------------------------------------------------------
// (d) Body::from conversions.

static POOL: [u8; 4096] = {
    let mut a = [0u8; 4096];
    let mut i = 0;
    while i < 4096 {
        a[i] = b'a' + (i % 26) as u8;
        i += 1;
    }
    a
};

type B = http_serve::Body<Bytes, HarnessError>;

fn check_from(len: usize, kind: usize, acc: &mut Acc, c20: bool) -> Check {
    let s: &'static [u8] = &POOL[..len];
    let body: B = match kind {
        0 => B::from(s),
        1 => B::from(std::str::from_utf8(s).unwrap()),
        2 => B::from(s.to_vec()),
        3 => B::from(String::from_utf8(s.to_vec()).unwrap()),
        _ => B::empty(),
    };
    let want = if kind == 4 { 0 } else { len };
    let names = ["from-static-slice", "from-static-str", "from-vec", "from-string", "empty"];
    let label = format!("body:{}", names[kind]);
    let t = drain(body, DrainOpts { extra_polls: 1 + len % 4, ..Default::default() });
    if c20 {
        check_terminated_stays(&t, &label)?;
    } else {
        check_eos_truthful(&t, &label)?;
        check_hints(&t, true, &label)?;
        if !(t.ended_cleanly() && t.delivered_before_terminal() == want as u64 && t.body == s[..want]) {
            acc.count("body-from-content-mismatch(not C12)");
        }
    }
    acc.note(&label, len > 0 && kind != 4, (len * 8 + kind) as u64, || json!({"len": len, "kind": names[kind], "trace": t.summary()}));
    Ok(())
}

// ---------------------------------------------------------------------------------------------

fn run_both(cx: &Cx, c20: bool) -> Acc {
    let mut acc = Acc::new();
    let n = cx.tier.pick(1u64, 15u64);
    acc.merge(par_proptest(cx, "serve", 150_000 * n, serve_strategy, |c, acc| check_serve(c, acc, c20)));
    // Multipart answers with small parts on entities of every size (C06's generator): bodies that
    // are drained to their end even when the entity is astronomically large.
    acc.merge(par_proptest(cx, "serve-multipart", 50_000 * n, crate::props::c06::case_strategy, |c, acc| check_serve(c, acc, c20)));
    let max_len = cx.tier.pick(7u32, 9u32);
    let max_chunks = cx.tier.pick(4usize, 5usize);
    let units: Vec<u32> = (1..=max_len).collect();
    let extras: &[usize] = if c20 { &[1, 2, 3, 4] } else { &[2] };
    acc.merge(par_units(cx, "fault-enumeration", &units, true, "C07's fault enumeration with extra polls after the terminal event", |cx, &len, acc| {
        c07::enumerate(len, max_chunks, extras, |c| {
            acc.run_case(cx, "fault-enumeration", &c, |acc| check_fault(&c, acc, c20));
        });
    }));
    acc.merge(par_proptest(cx, "fault-random", 40_000 * n, c07::random_strategy, |c, acc| check_fault(c, acc, c20)));
    // Part *counts* around 2^15 and 2^16 (a Range header of 0.4-0.9 MB) with a failing or short
    // stream in one of the first parts, polled on after the error.
    let counts: Vec<usize> = vec![255, 256, 257, 32_767, 32_768, 32_769, 65_535, 65_536, 65_537];
    acc.merge(par_units(cx, "many-parts-fault", &counts, false, "multipart answers of n one-byte parts, n around 2^8, 2^15 and 2^16, with an error / early end in part 0, 1 or 2, extra polls afterwards", |cx, &n, acc| {
        let mut v = String::with_capacity(n * 14 + 8);
        v.push_str("bytes=");
        for i in 0..n {
            if i > 0 {
                v.push(',');
            }
            let p = i as u64 * 1000;
            v.push_str(&format!("{p}-{p}"));
        }
        for j in 0..3u32 {
            for kind in [FaultKind::Error, FaultKind::EndEarly] {
                if !c20 && kind != FaultKind::Error {
                    continue;
                }
                let c = Case {
                    ent: EntitySpec { faults: vec![crate::entity::Fault { call: j, chunk: 0, kind, extra: 0 }], ..EntitySpec::simple(1 << 40) },
                    req: ReqSpec::get().with("range", v.as_str()),
                };
                acc.run_case(cx, "many-parts-fault", &json!({"parts": n, "fault_in_part": j, "kind": format!("{kind:?}")}), |acc| check_serve(&c, acc, c20));
            }
        }
    }));
    let kinds: Vec<usize> = (0..5).collect();
    acc.merge(par_units(cx, "body-from", &kinds, true, "every Body::from conversion and Body::empty, lengths 0..=4096", |cx, &k, acc| {
        for len in 0..=4096usize {
            let case = json!({"len": len, "kind": k});
            acc.run_case(cx, "body-from", &case, |acc| check_from(len, k, acc, c20));
        }
    }));
    acc.merge(crate::props::stream::run_for_c12_c20(cx, c20));
    if !c20 {
        acc.merge(crate::sched::run_for_c12(cx));
    } else {
        acc.merge(crate::sched::run_for_c20(cx));
    }
    acc
}

pub fn run_c12(cx: &Cx) -> Acc {
    run_both(cx, false)
}

pub fn run_c20(cx: &Cx) -> Acc {
    run_both(cx, true)
}

fn replay_both(cx: &Cx, phase: &str, case: &Value, acc: &mut Acc, c20: bool) -> Check {
    let dec = |e: serde_json::Error| Fail {
        sig: "replay-decode".into(),
        msg: e.to_string(),
    };
    match phase {
        "serve" | "serve-multipart" => check_serve(&serde_json::from_value(case.clone()).map_err(dec)?, acc, c20),
        "fault-enumeration" | "fault-random" => check_fault(&serde_json::from_value(case.clone()).map_err(dec)?, acc, c20),
        "sched-repoll" => {
            let c: crate::sched::SchedCase = serde_json::from_value(case.clone()).map_err(dec)?;
            crate::sched::check_c20(&c, acc).0
        }
        "sched-sampled" => {
            let c: crate::sched::SchedCase = serde_json::from_value(case.clone()).map_err(dec)?;
            crate::sched::check_c12(&c, acc).0
        }
        "many-parts-fault" => {
            let n = case["parts"].as_u64().unwrap_or(2) as usize;
            let j = case["fault_in_part"].as_u64().unwrap_or(0) as u32;
            let kind = if case["kind"].as_str() == Some("EndEarly") { FaultKind::EndEarly } else { FaultKind::Error };
            let v: Vec<String> = (0..n as u64).map(|i| format!("{}-{}", i * 1000, i * 1000)).collect();
            let c = Case {
                ent: EntitySpec { faults: vec![crate::entity::Fault { call: j, chunk: 0, kind, extra: 0 }], ..EntitySpec::simple(1 << 40) },
                req: ReqSpec::get().with("range", format!("bytes={}", v.join(","))),
            };
            check_serve(&c, acc, c20)
        }
        "body-from" => check_from(case["len"].as_u64().unwrap_or(0) as usize, case["kind"].as_u64().unwrap_or(0) as usize, acc, c20),
        _ => crate::props::stream::replay_for_c12_c20(cx, phase, case, acc, c20),
    }
}

pub fn replay_c12(cx: &Cx, phase: &str, case: &Value, acc: &mut Acc) -> Check {
    replay_both(cx, phase, case, acc, false)
}

pub fn replay_c20(cx: &Cx, phase: &str, case: &Value, acc: &mut Acc) -> Check {
    replay_both(cx, phase, case, acc, true)
}

pub fn health_c12(acc: &Acc) -> Vec<String> {
    let mut v = Vec::new();
    for l in ["serve:200", "serve:206", "serve:multipart", "serve:412", "serve:405", "body:from-vec", "fault:error:multipart-part1", "fault:error:206"] {
        if acc.label(l) < 20 {
            v.push(format!("label {l} seen only {} times", acc.label(l)));
        }
    }
    v
}

pub fn health_c20(acc: &Acc) -> Vec<String> {
    let mut v = Vec::new();
    for l in [
        "serve:200",
        "serve:multipart",
        "serve:412",
        "fault:error:multipart-part1",
        "fault:early-end:multipart-part2",
        "fault:extra-chunk:206",
        "fault:extra-byte:200",
        "body:from-vec",
    ] {
        if acc.label(l) < 20 {
            v.push(format!("label {l} seen only {} times", acc.label(l)));
        }
    }
    v
}
