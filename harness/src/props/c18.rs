//! C18 — ChunkedReadFile: exact file bytes and stable, change-sensitive validators.

use crate::engine::*;
use crate::ensure;
use crate::entity::BoxError;
use crate::util::{content, fingerprint};
use bytes::Bytes;
use futures_core::Stream;
use http_serve::{ChunkedReadFile, Entity};
use serde::{Deserialize, Serialize};
use serde_json::{json, Value};
use std::fs::File;
use std::io::Write;
use std::path::{Path, PathBuf};
use std::pin::Pin;
use std::time::Duration;

pub const META: Meta = Meta {
    id: "C18",
    level: "fault_enumeration",
    rule: "Real files in a scratch directory: sizes {0,1,65535,65536,65537,131072,200001} x every range whose ends lie on, one before or one after each 64 KiB read boundary (plus 0, 1, size-1, size; empty and whole ranges) read through get_range and through serve() with a Range header; truncation of the file to each of {0, start, start+1, a boundary-1, a boundary, end-1} between construction and poll k for every k; growth after construction; metadata and ETag under re-open, under metadata-only inode operations in a later wall-clock second (chmod, hard link, rename and back, the same mtime re-applied: same tag), append, set_modified(+-1 ns, +-1 s), pairs of times whose seconds and nanoseconds spell the same digits when run together in hex or decimal (the tag must keep them apart), replacement by a same-length same-mtime file; directories and /dev/null as non-regular files; two or three streams of one entity polled alternately; histories on one instance (a stream read to the end, truncation, a second stream); ranges of 2^32 bytes and more on sparse files (first chunks); whole sparse files of 64-100 MiB (thorough 1 GiB) read to the end (over a thousand reads of one stream). Oracle: std::fs (file bytes, Metadata), non-empty chunks, clean end or an error (never a short clean end, never an empty chunk) within a poll budget owned by the harness. Non-trivial = range crossing a 64 KiB boundary, or a truncation that hits mid-stream; distinct by fingerprint of case.",
    assumptions: &[
        "sandbox filesystem semantics (regular files give full reads; running as root, permission errors are not explored)",
        "an ETag difference after a metadata change is demanded only when std::fs::Metadata itself reports the change",
    ],
};

type Crf = ChunkedReadFile<Bytes, BoxError>;

#[derive(Clone, Debug, Serialize, Deserialize)]
pub struct Case {
    pub size: u64,
    pub start: u64,
    pub end: u64,
    /// truncate to `.1` bytes after `.0` polls
    pub truncate: Option<(u32, u64)>,
    /// append this many bytes after construction (growth)
    #[serde(default)]
    pub grow: u64,
    #[serde(default)]
    pub via_serve: bool,
}

pub struct Scratch {
    pub dir: PathBuf,
}

impl Scratch {
    pub fn new(tag: &str) -> Scratch {
        let root = std::env::var("VP_SCRATCH_DIR").unwrap_or_else(|_| "/verif/harness/target/scratch".to_string());
        let dir = PathBuf::from(format!("{root}/{}-{}", std::process::id(), tag));
        let _ = std::fs::remove_dir_all(&dir);
        std::fs::create_dir_all(&dir).expect("scratch dir");
        Scratch { dir }
    }
}

impl Drop for Scratch {
    fn drop(&mut self) {
        let _ = std::fs::remove_dir_all(&self.dir);
    }
}

fn write_file(p: &Path, size: u64) {
    let mut f = File::create(p).expect("create");
    f.write_all(&content(0, size as usize)).expect("write");
    f.sync_data().ok();
}

#[derive(Debug)]
enum Item {
    Data(Vec<u8>),
    Err(String),
    End,
    Panic(String),
}

async fn next(s: &mut Pin<Box<dyn Stream<Item = Result<Bytes, BoxError>> + Send + Sync>>) -> Item {
    let polled = std::future::poll_fn(|cx| {
        let r = std::panic::catch_unwind(std::panic::AssertUnwindSafe(|| s.as_mut().poll_next(cx)));
        match r {
            Ok(std::task::Poll::Pending) => std::task::Poll::Pending,
            Ok(std::task::Poll::Ready(x)) => std::task::Poll::Ready(Ok(x)),
            Err(p) => std::task::Poll::Ready(Err(crate::panics::payload_msg(&p))),
        }
    })
    .await;
    match polled {
        Err(m) => Item::Panic(m),
        Ok(None) => Item::End,
        Ok(Some(Ok(b))) => Item::Data(b.to_vec()),
        Ok(Some(Err(e))) => Item::Err(e.to_string()),
    }
}

fn crosses_boundary(a: u64, b: u64) -> bool {
    b > a && (a / 65536) != ((b - 1) / 65536)
}

async fn stream_case(dir: &Path, c: &Case) -> Result<(&'static str, bool), Fail> {
    let p = dir.join("f");
    write_file(&p, c.size);
    let crf = Crf::new(File::open(&p).expect("open"), http::HeaderMap::new()).map_err(|e| Fail {
        sig: "construct-failed".into(),
        msg: format!("ChunkedReadFile::new on a regular file failed: {e}"),
    })?;
    ensure!(crf.len() == c.size, "len-differs", "len() is {}, the file has {} bytes", crf.len(), c.size);
    let crf_for_serve = Crf::new(File::open(&p).expect("open"), http::HeaderMap::new()).ok();
    if c.grow > 0 {
        let mut f = std::fs::OpenOptions::new().append(true).open(&p).expect("append");
        f.write_all(&vec![0xAB; c.grow as usize]).expect("grow");
    }
    let want = content(c.start, (c.end - c.start) as usize);
    let what = format!("case {}", serde_json::to_string(c).unwrap_or_default());
    let mut got: Vec<u8> = Vec::new();
    let mut polls = 0u32;
    let budget = (c.end - c.start) / 65536 + 3;
    if c.via_serve {
        // Through serve(): a single-range 206 (or 200 for the whole file).
        if c.start == c.end {
            return Ok(("skipped-empty-range-via-serve", false));
        }
        let req = http::Request::builder()
            .method("GET")
            .uri("/")
            .header("range", format!("bytes={}-{}", c.start, c.end - 1))
            .body(())
            .unwrap();
        let resp = http_serve::serve(crf_for_serve.expect("second instance"), &req);
        ensure!(resp.status() == 206, "serve-status", "serve answered {} for a satisfiable single range; {what}", resp.status());
        let cr = resp.headers().get("content-range").map(|v| v.as_bytes().to_vec()).unwrap_or_default();
        ensure!(
            cr == format!("bytes {}-{}/{}", c.start, c.end - 1, c.size).into_bytes(),
            "serve-content-range",
            "Content-Range is {:?}; {what}",
            crate::util::show_bytes(&cr)
        );
        let mut body = Box::pin(resp.into_body());
        let mut truncated = false;
        loop {
            if let Some((k, t)) = c.truncate {
                if polls == k && !truncated {
                    File::options().write(true).open(&p).expect("open for truncate").set_len(t).expect("truncate");
                    truncated = true;
                }
            }
            polls += 1;
            let r = std::future::poll_fn(|cx| {
                use http_body::Body as _;
                match std::panic::catch_unwind(std::panic::AssertUnwindSafe(|| body.as_mut().poll_frame(cx))) {
                    Ok(std::task::Poll::Pending) => std::task::Poll::Pending,
                    Ok(std::task::Poll::Ready(x)) => std::task::Poll::Ready(Ok(x)),
                    Err(p) => std::task::Poll::Ready(Err(crate::panics::payload_msg(&p))),
                }
            })
            .await;
            match r {
                Err(m) => return fail("panic", format!("polling the body panicked: {m}; {what}")),
                Ok(None) => break,
                Ok(Some(Err(e))) => {
                    ensure!(c.truncate.is_some(), "error-without-truncation", "body failed ({e}) although the file was not truncated; {what}");
                    ensure!(want.starts_with(&got), "bytes-differ", "bytes delivered before the error are not the file's; {what}");
                    return Ok(("truncated:error", true));
                }
                Ok(Some(Ok(f))) => {
                    let d = f.into_data().unwrap_or_default();
                    ensure!(!d.is_empty(), "empty-chunk", "the body yielded an empty chunk (poll {polls}); {what}");
                    got.extend_from_slice(&d);
                }
            }
            ensure!(polls as u64 <= budget + 2, "too-many-polls", "{polls} polls for a range of {} bytes; {what}", c.end - c.start);
        }
    } else {
        let mut s = crf.get_range(c.start..c.end);
        let mut truncated = false;
        loop {
            if let Some((k, t)) = c.truncate {
                if polls == k && !truncated {
                    File::options().write(true).open(&p).expect("open for truncate").set_len(t).expect("truncate");
                    truncated = true;
                }
            }
            polls += 1;
            match next(&mut s).await {
                Item::Panic(m) => return fail("panic", format!("polling the stream panicked: {m}; {what}")),
                Item::End => break,
                Item::Err(e) => {
                    ensure!(c.truncate.is_some(), "error-without-truncation", "stream failed ({e}) although the file was not truncated; {what}");
                    ensure!(want.starts_with(&got), "bytes-differ", "bytes delivered before the error are not the file's; {what}");
                    return Ok(("truncated:error", true));
                }
                Item::Data(d) => {
                    ensure!(!d.is_empty(), "empty-chunk", "the stream yielded an empty chunk (poll {polls}); {what}");
                    got.extend_from_slice(&d);
                    ensure!(got.len() <= want.len(), "too-many-bytes", "stream delivered {} bytes for a range of {}; {what}", got.len(), want.len());
                }
            }
            ensure!(polls as u64 <= budget, "too-many-polls", "{polls} polls for a range of {} bytes; {what}", c.end - c.start);
        }
    }
    // Clean end.
    if let Some((_, t)) = c.truncate {
        if t < c.end && (got.len() as u64) < c.end - c.start {
            return fail(
                "short-clean-end",
                format!("file truncated to {t} below the range end: the stream ended cleanly after {} of {} bytes; {what}", got.len(), c.end - c.start),
            );
        }
    }
    ensure!(
        got == want,
        "bytes-differ",
        "stream delivered {} bytes, the range has {}; first difference at {:?}; {what}",
        got.len(),
        want.len(),
        got.iter().zip(want.iter()).position(|(a, b)| a != b)
    );
    ensure!(crf.len() == c.size, "len-changed", "len() changed to {} after the file was modified; {what}", crf.len());
    let label = if c.truncate.is_some() {
        "truncated:unaffected"
    } else if c.grow > 0 {
        "grown"
    } else if crosses_boundary(c.start, c.end) {
        "plain:crosses-boundary"
    } else {
        "plain"
    };
    Ok((label, crosses_boundary(c.start, c.end)))
}

/// Several streams of ONE entity polled alternately: each must still deliver exactly its own range
/// (an implementation that keeps per-file state such as a cursor would mix them up).
async fn interleaved_case(dir: &Path, size: u64, ranges: &[(u64, u64)], order_seed: u64) -> Result<(), Fail> {
    let p = dir.join("i");
    write_file(&p, size);
    let crf = Crf::new(File::open(&p).expect("open"), http::HeaderMap::new()).map_err(|e| Fail { sig: "construct-failed".into(), msg: e.to_string() })?;
    let mut streams: Vec<_> = ranges.iter().map(|(a, b)| (crf.get_range(*a..*b), Vec::<u8>::new(), false)).collect();
    let what = format!("size {size}, ranges {ranges:?}, order seed {order_seed}");
    let mut h = order_seed;
    let mut polls = 0;
    while streams.iter().any(|s| !s.2) {
        h = crate::util::splitmix64(h);
        let live: Vec<usize> = (0..streams.len()).filter(|i| !streams[*i].2).collect();
        let i = live[(h % live.len() as u64) as usize];
        polls += 1;
        ensure!(polls < 10_000, "too-many-polls", "interleaved streams did not finish; {what}");
        match next(&mut streams[i].0).await {
            Item::Panic(m) => return fail("panic", format!("polling stream {i} panicked: {m}; {what}")),
            Item::End => streams[i].2 = true,
            Item::Err(e) => return fail("interleaved:error", format!("stream {i} of an unmodified file failed ({e}) while other streams of the same entity were being read; {what}")),
            Item::Data(d) => {
                ensure!(!d.is_empty(), "empty-chunk", "stream {i} yielded an empty chunk; {what}");
                streams[i].1.extend_from_slice(&d);
            }
        }
    }
    for (i, (a, b)) in ranges.iter().enumerate() {
        let want = content(*a, (*b - *a) as usize);
        ensure!(
            streams[i].1 == want,
            "interleaved:bytes-differ",
            "stream {i} ({a}..{b}) delivered {} bytes, first difference at {:?}, while other streams of the same entity were read in between; {what}",
            streams[i].1.len(),
            streams[i].1.iter().zip(want.iter()).position(|(x, y)| x != y)
        );
    }
    Ok(())
}

/// Sparse files of 4 GiB and more (all zeros, no disk space): ranges longer than 2^32 bytes,
/// read for a few chunks only.
/// A history on ONE entity instance: a first stream read to its end, the file truncated, a second
/// stream. What an earlier stream read must not stand in for the file later on.
async fn instance_history_case(dir: &Path, size: u64, r1: (u64, u64), trunc: u64, r2: (u64, u64)) -> Result<(), Fail> {
    let p = dir.join("h");
    write_file(&p, size);
    let crf = Crf::new(File::open(&p).expect("open"), http::HeaderMap::new()).map_err(|e| Fail { sig: "construct-failed".into(), msg: e.to_string() })?;
    let what = format!("size {size}, first stream {r1:?} read to the end, truncated to {trunc}, second stream {r2:?} of the same instance");
    // first stream, file intact
    let mut s1 = crf.get_range(r1.0..r1.1);
    let mut got1 = Vec::new();
    for i in 0..((r1.1 - r1.0) / 65536 + 4) {
        match next(&mut s1).await {
            Item::Panic(m) => return fail("panic", format!("first stream, poll {i} panicked: {m}; {what}")),
            Item::End => break,
            Item::Err(e) => return fail("history:first-stream-error", format!("first stream failed ({e}) on the intact file; {what}")),
            Item::Data(d) => got1.extend_from_slice(&d),
        }
    }
    ensure!(got1 == content(r1.0, (r1.1 - r1.0) as usize), "history:first-stream-bytes", "first stream delivered {} bytes that differ from the file; {what}", got1.len());
    drop(s1);
    File::options().write(true).open(&p).expect("open for truncation").set_len(trunc).expect("truncate");
    let mut s2 = crf.get_range(r2.0..r2.1);
    let mut got2 = Vec::new();
    let mut outcome = "budget";
    for i in 0..((r2.1 - r2.0) / 65536 + 4) {
        match next(&mut s2).await {
            Item::Panic(m) => return fail("panic", format!("second stream, poll {i} panicked: {m}; {what}")),
            Item::End => {
                outcome = "end";
                break;
            }
            Item::Err(_) => {
                outcome = "error";
                break;
            }
            Item::Data(d) => {
                ensure!(!d.is_empty(), "empty-chunk", "second stream yielded an empty chunk; {what}");
                got2.extend_from_slice(&d);
            }
        }
    }
    let want = content(r2.0, (r2.1 - r2.0) as usize);
    ensure!(want.starts_with(&got2), "history:second-stream-bytes", "the second stream's {} bytes are not the file's; {what}", got2.len());
    if r2.1 <= trunc {
        ensure!(outcome == "end" && got2.len() as u64 == r2.1 - r2.0, "history:second-stream-short", "the range lies within the truncated file but the stream gave {} bytes and ended with {outcome}; {what}", got2.len());
    } else {
        ensure!(
            outcome == "error" && (got2.len() as u64) <= trunc.saturating_sub(r2.0),
            "history:truncation-not-noticed",
            "the file now ends at {trunc}, before the range end: the stream must fail, it delivered {} bytes and ended with {outcome}; {what}",
            got2.len()
        );
    }
    Ok(())
}

async fn sparse_case(dir: &Path, size: u64, start: u64, end: u64, polls: u32) -> Result<(), Fail> {
    let p = dir.join("sparse");
    {
        let f = File::create(&p).expect("create");
        f.set_len(size).expect("set_len (sparse)");
    }
    // a marker byte every 7 MiB + 13 (and at the last byte), so that positions are visible
    let stride = 7 * (1u64 << 20) + 13;
    {
        use std::os::unix::fs::FileExt;
        let f = File::options().write(true).open(&p).expect("open for markers");
        let mut at = stride;
        while at < size && size <= (1 << 31) {
            f.write_all_at(&[0xA5], at).expect("marker");
            at += stride;
        }
    }
    let marker = |pos: u64| size <= (1 << 31) && pos >= stride && pos % stride == 0;
    let crf = Crf::new(File::open(&p).expect("open"), http::HeaderMap::new()).map_err(|e| Fail { sig: "construct-failed".into(), msg: e.to_string() })?;
    ensure!(crf.len() == size, "len-differs", "len() is {}, the sparse file has {size} bytes", crf.len());
    let what = format!("sparse file of {size} bytes, range {start}..{end}");
    let mut s = crf.get_range(start..end);
    let mut got = 0u64;
    let mut ended = false;
    for i in 0..polls {
        match next(&mut s).await {
            Item::Panic(m) => return fail("panic", format!("poll {i} panicked: {m}; {what}")),
            Item::End => {
                ensure!(got == end - start, "short-clean-end", "stream ended after {got} of {} bytes; {what}", end - start);
                ended = true;
                break;
            }
            Item::Err(e) => return fail("sparse:error", format!("poll {i} failed ({e}) after {got} bytes although the file was not touched; {what}")),
            Item::Data(d) => {
                ensure!(!d.is_empty(), "empty-chunk", "poll {i} yielded an empty chunk after {got} bytes; {what}");
                let base = start + got;
                let ok = d.iter().enumerate().all(|(k, b)| *b == if marker(base + k as u64) { 0xA5 } else { 0 });
                ensure!(ok, "bytes-differ", "bytes at {base}.. differ from the file (zeros with a marker every {stride} bytes); {what}");
                got += d.len() as u64;
                ensure!(got <= end - start, "too-many-bytes", "{got} bytes for a range of {}; {what}", end - start);
            }
        }
    }
    // with the poll budget of the other stream checks (one poll per 64 KiB read, plus slack) the stream must have finished
    if !ended && polls as u64 >= (end - start) / 65536 + 3 {
        return fail("sparse:not-finished", format!("{polls} polls delivered {got} of {} bytes and the stream has not ended; {what}", end - start));
    }
    let _ = std::fs::remove_file(&p);
    Ok(())
}

pub const SIZES: &[u64] = &[0, 1, 65535, 65536, 65537, 131072, 200001];

fn points(size: u64) -> Vec<u64> {
    let mut v = vec![0, 1, size.saturating_sub(1), size];
    for b in [65536u64, 131072, 196608] {
        for d in [-1i64, 0, 1] {
            let x = b as i64 + d;
            if x >= 0 && (x as u64) <= size {
                v.push(x as u64);
            }
        }
    }
    v.retain(|x| *x <= size);
    v.sort();
    v.dedup();
    v
}

fn cases_for(size: u64, thorough: bool) -> Vec<Case> {
    let pts = points(size);
    let mut out = Vec::new();
    for &a in &pts {
        for &b in &pts {
            if a > b {
                continue;
            }
            for via_serve in [false, true] {
                out.push(Case {
                    size,
                    start: a,
                    end: b,
                    truncate: None,
                    grow: 0,
                    via_serve,
                });
            }
            if a < b {
                out.push(Case {
                    size,
                    start: a,
                    end: b,
                    truncate: None,
                    grow: 70_000,
                    via_serve: false,
                });
                // truncation
                let mut ts = vec![0, a, a + 1, b - 1];
                for bd in [65536u64, 131072, 196608] {
                    if bd > a && bd < b {
                        ts.push(bd - 1);
                        ts.push(bd);
                    }
                }
                ts.retain(|t| *t < b);
                ts.sort();
                ts.dedup();
                let max_k = ((b - a) / 65536 + 1) as u32;
                for t in ts {
                    for k in 0..=max_k {
                        let _ = thorough;
                        out.push(Case {
                            size,
                            start: a,
                            end: b,
                            truncate: Some((k, t)),
                            grow: 0,
                            via_serve: (k + t as u32) % 4 == 0,
                        });
                    }
                }
            }
        }
    }
    out
}

fn with_runtime<T>(f: impl FnOnce(&tokio::runtime::Runtime) -> T) -> T {
    let rt = tokio::runtime::Builder::new_multi_thread().worker_threads(1).build().expect("runtime");
    let r = f(&rt);
    rt.shutdown_background();
    r
}

fn run_case(rt: &tokio::runtime::Runtime, dir: &Path, c: &Case) -> Result<(&'static str, bool), Fail> {
    let dir = dir.to_path_buf();
    let c = c.clone();
    // block_in_place needs a runtime worker thread: run as a spawned task.
    match rt.block_on(rt.spawn(async move { stream_case(&dir, &c).await })) {
        Ok(r) => r,
        Err(e) => fail("panic", format!("task panicked: {e}")),
    }
}

fn etag_of(p: &Path) -> Result<(Vec<u8>, u64, std::time::SystemTime), Fail> {
    let f = File::open(p).expect("open");
    let crf = Crf::new(f, http::HeaderMap::new()).map_err(|e| Fail {
        sig: "construct-failed".into(),
        msg: e.to_string(),
    })?;
    let t = crf.etag().ok_or(Fail {
        sig: "etag-missing".into(),
        msg: "ChunkedReadFile has no ETag".into(),
    })?;
    Ok((t.as_bytes().to_vec(), crf.len(), crf.last_modified().expect("mtime")))
}

fn valid_strong_tag(t: &[u8]) -> bool {
    t.len() >= 2 && t[0] == b'"' && t[t.len() - 1] == b'"' && t[1..t.len() - 1].iter().all(|&b| b == 0x21 || (0x23..=0x7e).contains(&b) || b >= 0x80)
}

fn metadata_checks(dir: &Path, size: u64, acc: &mut Acc) -> Check {
    let p = dir.join("m");
    write_file(&p, size);
    let base_mtime = std::time::UNIX_EPOCH + Duration::new(1_600_000_000, 123_456_789);
    File::options().write(true).open(&p).unwrap().set_modified(base_mtime).expect("set_modified");
    let md = std::fs::metadata(&p).unwrap();
    let (e1, len1, m1) = etag_of(&p)?;
    ensure!(valid_strong_tag(&e1), "etag-syntax", "ETag {:?} is not a valid strong entity-tag", crate::util::show_bytes(&e1));
    ensure!(len1 == md.len(), "len-differs", "len() {len1} != metadata {}", md.len());
    ensure!(m1 == md.modified().unwrap(), "mtime-differs", "last_modified() {:?} != metadata {:?}", m1, md.modified().unwrap());
    let (e2, _, _) = etag_of(&p)?;
    ensure!(e1 == e2, "etag-unstable", "two instances on the unmodified file have ETags {:?} and {:?}", crate::util::show_bytes(&e1), crate::util::show_bytes(&e2));
    acc.note("metadata:stable", true, size * 16, || json!({"size": size, "etag": crate::util::show_bytes(&e1)}));
    // Operations that leave bytes, length, modification time and identity alone (they only move the
    // inode change time): the file is unmodified, so a new instance carries the same tag. The pause
    // puts them in a later wall-clock second than the file's creation.
    std::thread::sleep(Duration::from_millis(1100));
    {
        use std::os::unix::fs::{MetadataExt, PermissionsExt};
        let ops: [(&str, Box<dyn Fn(&Path)>); 5] = [
            ("later-second", Box::new(|_p: &Path| {})),
            ("chmod", Box::new(|p: &Path| std::fs::set_permissions(p, std::fs::Permissions::from_mode(0o600)).expect("chmod"))),
            ("hard-link", Box::new(|p: &Path| {
                let l = p.with_extension("lnk");
                std::fs::hard_link(p, &l).expect("link");
                std::fs::remove_file(&l).expect("unlink");
            })),
            ("rename-and-back", Box::new(|p: &Path| {
                let r = p.with_extension("moved");
                std::fs::rename(p, &r).expect("rename");
                std::fs::rename(&r, p).expect("rename back");
            })),
            ("same-mtime-reapplied", Box::new(move |p: &Path| File::options().write(true).open(p).unwrap().set_modified(base_mtime).expect("set_modified"))),
        ];
        for (i, (name, op)) in ops.iter().enumerate() {
            op(&p);
            let md_now = std::fs::metadata(&p).unwrap();
            if md_now.ino() != md.ino() || md_now.len() != md.len() || md_now.modified().unwrap() != md.modified().unwrap() {
                acc.count("metadata-only-operation-changed-more-on-this-filesystem");
                continue;
            }
            let (e, l, m) = etag_of(&p)?;
            ensure!(
                e == e1 && l == len1 && m == m1,
                format!("etag-unstable:{name}"),
                "after {name} (length, mtime and inode unchanged) a new instance has ETag {:?}, len {l}, mtime {m:?}; before: {:?}, {len1}, {m1:?}",
                crate::util::show_bytes(&e),
                crate::util::show_bytes(&e1)
            );
            acc.note("metadata:stable-after-inode-op", true, size * 16 + 10 + i as u64, || json!({"size": size, "op": name}));
        }
    }
    // Keep an instance open across the changes: its own view must not change.
    let keep =Crf::new(File::open(&p).unwrap(), http::HeaderMap::new()).unwrap();
    // 1. modification time.
    for (i, delta) in [(1i64, 1i64), (2, -1), (3, 1_000_000_000), (4, -1_000_000_000)] {
        let nm = if delta > 0 { base_mtime + Duration::from_nanos(delta as u64) } else { base_mtime - Duration::from_nanos((-delta) as u64) };
        File::options().write(true).open(&p).unwrap().set_modified(nm).expect("set_modified");
        let changed = std::fs::metadata(&p).unwrap().modified().unwrap() != md.modified().unwrap();
        let (e, _, m) = etag_of(&p)?;
        if changed {
            ensure!(e != e1, format!("etag-insensitive:mtime{delta:+}ns"), "mtime changed by {delta} ns but the ETag stayed {:?}", crate::util::show_bytes(&e));
            ensure!(m == nm || m == std::fs::metadata(&p).unwrap().modified().unwrap(), "mtime-differs", "last_modified() does not follow the file");
            acc.note("metadata:mtime-change", true, size * 16 + i as u64, || json!({"size": size, "delta_ns": delta}));
        } else {
            acc.count("mtime-change-not-visible-on-this-filesystem");
        }
        File::options().write(true).open(&p).unwrap().set_modified(base_mtime).unwrap();
    }
    // 2. length (append one byte, restore mtime so that only the length differs).
    {
        let mut f = File::options().append(true).open(&p).unwrap();
        f.write_all(b"x").unwrap();
        f.set_modified(base_mtime).unwrap();
        let (e, l, _) = etag_of(&p)?;
        ensure!(l == size + 1, "len-differs", "len() {l} after appending one byte to {size}");
        ensure!(e != e1, "etag-insensitive:length", "length changed {size} -> {} (same mtime) but the ETag stayed {:?}", size + 1, crate::util::show_bytes(&e));
        f.set_len(size).unwrap();
        f.set_modified(base_mtime).unwrap();
        acc.note("metadata:length-change", true, size * 16 + 8, || json!({"size": size}));
    }
    // 3. identity: same length, same mtime, new inode.
    {
        let q = dir.join("m.new");
        write_file(&q, size);
        File::options().write(true).open(&q).unwrap().set_modified(base_mtime).unwrap();
        std::fs::rename(&q, &p).unwrap();
        let md2 = std::fs::metadata(&p).unwrap();
        use std::os::unix::fs::MetadataExt;
        if md2.ino() != md.ino() && md2.modified().unwrap() == md.modified().unwrap() {
            let (e, _, _) = etag_of(&p)?;
            ensure!(e != e1, "etag-insensitive:identity", "file replaced by another of the same length and mtime but the ETag stayed {:?}", crate::util::show_bytes(&e));
            acc.note("metadata:identity-change", true, size * 16 + 9, || json!({"size": size}));
        } else {
            acc.count("replacement-not-distinguishable-on-this-filesystem");
        }
    }
    // The instance opened before all of this still reports its construction-time view.
    ensure!(keep.len() == len1 && keep.last_modified() == Some(m1) && keep.etag().map(|t| t.as_bytes().to_vec()) == Some(e1.clone()), "instance-view-changed", "len/last_modified/etag of an existing instance changed when the file did");
    Ok(())
}

/// A regular file last modified before 1970 is still a regular file: construction, validators
/// and serving must work (such times come from archives, clock resets and `touch -d`).
fn pre_epoch_checks(dir: &Path, size: u64, secs: u64, nanos: u32, acc: &mut Acc) -> Check {
    let p = dir.join("old");
    write_file(&p, size);
    let t = std::time::UNIX_EPOCH - Duration::new(secs, nanos);
    if File::options().write(true).open(&p).unwrap().set_modified(t).is_err() {
        acc.count("pre-epoch-mtime-not-stored-on-this-filesystem");
        return Ok(());
    }
    let md = std::fs::metadata(&p).unwrap();
    if md.modified().unwrap() >= std::time::UNIX_EPOCH {
        acc.count("pre-epoch-mtime-not-stored-on-this-filesystem");
        return Ok(());
    }
    let tag = |p: &Path| -> Result<(Vec<u8>, std::time::SystemTime), Fail> {
        match crate::panics::guard(|| etag_of(p)) {
            Ok(r) => r.map(|(e, _, m)| (e, m)),
            Err(m) => fail(format!("pre-epoch-mtime-panic:{}", crate::panics::panic_sig(&m)), format!("ChunkedReadFile on a file modified at {:?} panicked: {m}", md.modified().unwrap())),
        }
    };
    let (e1, m1) = tag(&p)?;
    ensure!(valid_strong_tag(&e1), "etag-syntax", "ETag {:?} is not a valid strong entity-tag (mtime {:?})", crate::util::show_bytes(&e1), md.modified().unwrap());
    ensure!(m1 == md.modified().unwrap(), "mtime-differs", "last_modified() {:?} != metadata {:?}", m1, md.modified().unwrap());
    let (e2, _) = tag(&p)?;
    ensure!(e1 == e2, "etag-unstable", "two instances on the unmodified file have ETags {:?} and {:?}", crate::util::show_bytes(&e1), crate::util::show_bytes(&e2));
    // change-sensitive on that side of the epoch too, and distinct from the mirrored time after it
    for (name, nt) in [("-1ns", t - Duration::from_nanos(1)), ("+1ns", t + Duration::from_nanos(1)), ("-1s", t - Duration::from_secs(1)), ("mirrored", std::time::UNIX_EPOCH + Duration::new(secs, nanos))] {
        if File::options().write(true).open(&p).unwrap().set_modified(nt).is_err() {
            continue;
        }
        if std::fs::metadata(&p).unwrap().modified().unwrap() != md.modified().unwrap() {
            let (e, _) = tag(&p)?;
            ensure!(e != e1, format!("etag-insensitive:pre-epoch-mtime{name}"), "mtime changed from {t:?} to {nt:?} but the ETag stayed {:?}", crate::util::show_bytes(&e));
        }
    }
    File::options().write(true).open(&p).unwrap().set_modified(t).unwrap();
    // served through serve(): no panic, the whole file
    let q = p.clone();
    let served = crate::panics::guard(|| {
        with_runtime(|rt| {
            rt.block_on(rt.spawn(async move {
                let crf = Crf::new(File::open(&q).expect("open"), http::HeaderMap::new()).expect("construct");
                let req = http::Request::builder().method("GET").uri("/").body(()).unwrap();
                let resp = http_serve::serve(crf, &req);
                let status = resp.status().as_u16();
                let mut body = Box::pin(resp.into_body());
                let mut got = Vec::new();
                let mut polls = 0;
                while let Some(f) = std::future::poll_fn(|cx| http_body::Body::poll_frame(body.as_mut(), cx)).await {
                    polls += 1;
                    match f {
                        Ok(f) => {
                            if let Ok(d) = f.into_data() {
                                got.extend_from_slice(&d);
                            }
                        }
                        Err(e) => return Err(format!("body error: {e}")),
                    }
                    if polls > 16 {
                        return Err("too many polls".to_string());
                    }
                }
                Ok((status, got))
            }))
        })
    });
    match served {
        Ok(Ok(Ok((status, got)))) => {
            ensure!(status == 200 && got == content(0, size as usize), "pre-epoch-serve", "serve() of a file modified at {t:?} answered {status} with {} bytes (file has {size})", got.len());
        }
        Ok(Ok(Err(m))) => return fail("pre-epoch-serve", format!("serving a file modified at {t:?}: {m}")),
        Ok(Err(e)) => return fail(format!("pre-epoch-mtime-panic:serve"), format!("serve() of a file modified at {t:?} panicked: {e}")),
        Err(m) => return fail("pre-epoch-mtime-panic:serve", format!("serve() of a file modified at {t:?} panicked: {m}")),
    }
    acc.note("metadata:pre-epoch-mtime", true, size * 1000 + secs % 997 + nanos as u64 % 7, || json!({"size": size, "before_epoch": [secs, nanos], "etag": crate::util::show_bytes(&e1)}));
    Ok(())
}

/// Pairs of modification times whose (seconds, nanoseconds) spell the same digit string when written
/// one after the other without a separator, in hexadecimal or in decimal: the tags must differ.
fn mtime_collision_checks(dir: &Path, size: u64, acc: &mut Acc) -> Check {
    let p = dir.join("c");
    write_file(&p, size);
    let mut pairs: Vec<((u64, u32), (u64, u32))> = Vec::new();
    for (digits, radix) in [("bbbbbbb1abcdef0", 16u32), ("5f5e1001abc123", 16), ("6123456789abcd", 16), ("1612345678912345", 10), ("99123456712345678", 10), ("1700000001230000", 10)] {
        for i in 6..digits.len().saturating_sub(1) {
            for j in i + 1..digits.len().min(i + 3) {
                let parse = |a: &str, b: &str| -> Option<(u64, u32)> {
                    if b.starts_with('0') || a.starts_with('0') {
                        return None;
                    }
                    let s = u64::from_str_radix(a, radix).ok()?;
                    let n = u64::from_str_radix(b, radix).ok()?;
                    (s < (1 << 34) && n < 1_000_000_000).then_some((s, n as u32))
                };
                if let (Some(x), Some(y)) = (parse(&digits[..i], &digits[i..]), parse(&digits[..j], &digits[j..])) {
                    pairs.push((x, y));
                }
            }
        }
    }
    let mut seen = 0;
    for (a, b) in pairs {
        let mut tags = Vec::new();
        for (s, n) in [a, b] {
            let t = std::time::UNIX_EPOCH + Duration::new(s, n);
            if File::options().write(true).open(&p).unwrap().set_modified(t).is_err() || std::fs::metadata(&p).unwrap().modified().unwrap() != t {
                tags.clear();
                break;
            }
            tags.push(etag_of(&p)?.0);
        }
        if tags.len() == 2 {
            seen += 1;
            ensure!(
                tags[0] != tags[1],
                "etag-insensitive:mtime-digits-run-together",
                "modification times {a:?} and {b:?} (seconds, nanoseconds) give the same ETag {:?}",
                crate::util::show_bytes(&tags[0])
            );
        }
    }
    if seen > 0 {
        acc.note("metadata:mtime-digit-collisions", true, size * 1000 + 999, || json!({"size": size, "pairs": seen}));
    }
    Ok(())
}

fn nonregular_checks(dir: &Path, acc: &mut Acc) -> Check {
    for (name, path) in [("directory", dir.to_path_buf()), ("dev-null", PathBuf::from("/dev/null"))] {
        let f = File::open(&path).expect("open non-regular");
        let r = Crf::new(f, http::HeaderMap::new());
        ensure!(r.is_err(), format!("nonregular-accepted:{name}"), "ChunkedReadFile::new accepted {name}");
        let f = File::open(&path).unwrap();
        let md = f.metadata().unwrap();
        let r = Crf::new_with_metadata(f, &md, http::HeaderMap::new());
        ensure!(r.is_err(), format!("nonregular-accepted:{name}"), "ChunkedReadFile::new_with_metadata accepted {name}");
        acc.note(&format!("nonregular:{name}"), true, fingerprint(&name), || json!({"path": path.display().to_string()}));
    }
    Ok(())
}

pub fn run(cx: &Cx) -> Acc {
    let mut acc = Acc::new();
    let thorough = cx.tier == Tier::Thorough;
    acc.merge(par_units(cx, "streams", SIZES, true, "every boundary range x {get_range, serve} x growth x truncation points x poll index, per file size", |cx, &size, acc| {
        let scratch = Scratch::new(&format!("c18-{size}"));
        with_runtime(|rt| {
            for c in cases_for(size, thorough) {
                let mut lab = ("", false);
                let ok = acc.run_case(cx, "streams", &c, |_| {
                    lab = run_case(rt, &scratch.dir, &c)?;
                    Ok(())
                });
                if ok && !lab.0.is_empty() {
                    let nt = lab.1 || lab.0.starts_with("truncated:error");
                    acc.note(lab.0, nt, fingerprint(&c), || json!({"case": c}));
                }
            }
        });
    }));
    if thorough {
        let more: Vec<u64> = vec![2, 3, 4095, 4096, 65534, 131071, 131073, 196607, 196608, 196609, 262144, 300_000];
        acc.merge(par_units(cx, "streams-more-sizes", &more, true, "the same enumeration for further file sizes", |cx, &size, acc| {
            let scratch = Scratch::new(&format!("c18x-{size}"));
            with_runtime(|rt| {
                for c in cases_for(size, true) {
                    let mut lab = ("", false);
                    let ok = acc.run_case(cx, "streams-more-sizes", &c, |_| {
                        lab = run_case(rt, &scratch.dir, &c)?;
                        Ok(())
                    });
                    if ok && !lab.0.is_empty() {
                        acc.note(lab.0, lab.1 || lab.0.starts_with("truncated:error"), fingerprint(&c), || json!({"case": c}));
                    }
                }
            });
        }));
    }
    // Random sizes, ranges and truncation points.
    {
        use proptest::prelude::*;
        let n = cx.tier.pick(2_000u64, 40_000u64);
        let scratches: Vec<Scratch> = (0..SHARDS).map(|i| Scratch::new(&format!("c18r-{i}"))).collect();
        let counter = std::sync::atomic::AtomicUsize::new(0);
        thread_local! { static RT: std::cell::RefCell<Option<(tokio::runtime::Runtime, usize)>> = const { std::cell::RefCell::new(None) }; }
        acc.merge(par_proptest(
            cx,
            "random",
            n,
            || {
                (0u64..300_000, any::<(u16, u16)>(), proptest::option::of((0u32..6, any::<u16>())), any::<bool>(), prop_oneof![3 => Just(0u64), 1 => 1u64..100_000]).prop_map(|(size, (x, y), tr, via_serve, grow)| {
                    let a = (x as u64 * (size + 1)) >> 16;
                    let b = (y as u64 * (size + 1)) >> 16;
                    let (start, end) = if a <= b { (a, b) } else { (b, a) };
                    Case {
                        size,
                        start,
                        end,
                        truncate: tr.map(|(k, t)| (k, (t as u64 * end.max(1)) >> 16)).filter(|_| end > start),
                        grow: if tr.is_some() { 0 } else { grow },
                        via_serve,
                    }
                })
            },
            |c, acc| {
                RT.with(|cell| {
                    let mut cell = cell.borrow_mut();
                    let (rt, idx) = cell.get_or_insert_with(|| {
                        let i = counter.fetch_add(1, std::sync::atomic::Ordering::SeqCst) % scratches.len();
                        (tokio::runtime::Builder::new_multi_thread().worker_threads(1).build().expect("runtime"), i)
                    });
                    // each rayon worker thread owns one runtime and one scratch directory
                    let dir = scratches[*idx].dir.join(format!("t{:?}", std::thread::current().id()).replace(['(', ')'], ""));
                    std::fs::create_dir_all(&dir).ok();
                    let (label, nt) = run_case(rt, &dir, c)?;
                    acc.note(label, nt || label.starts_with("truncated:error"), fingerprint(c), || json!({"case": c}));
                    Ok(())
                })
            },
        ));
    }
    // Two or three streams of one entity, polled in pseudo-random alternation.
    {
        let seeds: Vec<u64> = (0..cx.tier.pick(16u64, 64u64)).collect();
        acc.merge(par_units(cx, "interleaved-streams", &seeds, false, "2-3 concurrent streams of one ChunkedReadFile (ranges longer than one read), polled alternately", |cx, &seed, acc| {
            let scratch = Scratch::new(&format!("c18i-{seed}"));
            with_runtime(|rt| {
                let mut h = crate::util::mix(cx.seed, seed);
                for k in 0..20u64 {
                    h = crate::util::splitmix64(h);
                    let size = [131_072u64, 200_001, 262_144, 65_537][(h % 4) as usize];
                    let n = 2 + (h >> 8) % 2;
                    let mut ranges = Vec::new();
                    for j in 0..n {
                        let hh = crate::util::mix(h, j);
                        let a = hh % (size / 2);
                        let b = (a + 65_536 + (hh >> 20) % size.saturating_sub(a + 65_536).max(1)).min(size);
                        ranges.push((a, b));
                    }
                    let case = json!({"interleaved": {"size": size, "ranges": ranges, "order": h}});
                    let dir = scratch.dir.clone();
                    let rs = ranges.clone();
                    let ok = acc.run_case(cx, "interleaved-streams", &case, |_| match rt.block_on(rt.spawn(async move { interleaved_case(&dir, size, &rs, h).await })) {
                        Ok(r) => r,
                        Err(e) => fail("panic", format!("task panicked: {e}")),
                    });
                    if ok {
                        acc.note("interleaved-streams", true, crate::util::mix(seed, k), || case.clone());
                    }
                }
            });
        }));
    }
    // Ranges of 2^32 bytes and more on sparse files.
    {
        let g: u64 = 1 << 32;
        let cases: Vec<(u64, u64, u64)> = vec![
            (g, 0, g),
            (g + 70_000, 0, g + 70_000),
            (g + 70_000, 5, g + 70_000),
            (2 * g, 0, 2 * g),
            (2 * g + 1, 1, 2 * g + 1),
            (g + 131_072, 0, g + 131_072),
            (g + 70_000, g - 10, g + 70_000),
            (3 * g, g + 7, 3 * g - 9),
            (g + 65_536, 65_536, g + 65_536),
        ];
        acc.merge(par_units(cx, "sparse-4gib", &cases, false, "ranges of 2^32 bytes and more on sparse files, first chunks only", |cx, &(size, a, b), acc| {
            let scratch = Scratch::new(&format!("c18s-{size}-{a}"));
            let case = json!({"sparse": {"size": size, "start": a, "end": b}});
            let dir = scratch.dir.clone();
            with_runtime(|rt| {
                let ok = acc.run_case(cx, "sparse-4gib", &case, |_| match rt.block_on(rt.spawn(async move { sparse_case(&dir, size, a, b, 6).await })) {
                    Ok(r) => r,
                    Err(e) => fail("panic", format!("task panicked: {e}")),
                });
                if ok {
                    acc.note("sparse-4gib", true, crate::util::mix(size, a), || case.clone());
                }
            });
        }));
    }
    // Histories on one instance: read, truncate, read again.
    let hist_sizes: Vec<u64> = vec![1, 100, 4096, 65_535, 65_536, 65_537, 200_001];
    acc.merge(par_units(cx, "instance-history", &hist_sizes, true, "one ChunkedReadFile: first stream {whole, head, tail} read to the end, truncation to {0, half, size-1}, second stream {whole, beyond the cut, within the cut, last byte}", |cx, &size, acc| {
        let scratch = Scratch::new(&format!("c18h-{size}"));
        let firsts = [(0, size), (0, size.min(10)), (size - size.min(7), size)];
        let cuts = [0, size / 2, size - 1];
        for r1 in firsts {
            for t in cuts {
                let seconds = [(0, size), (t.min(size - 1), size), (0, t), (size - 1, size)];
                for r2 in seconds {
                    if r2.0 >= r2.1 {
                        continue;
                    }
                    let case = json!({"history": {"size": size, "r1": [r1.0, r1.1], "trunc": t, "r2": [r2.0, r2.1]}});
                    let dir = scratch.dir.clone();
                    with_runtime(|rt| {
                        let ok = acc.run_case(cx, "instance-history", &case, |_| match rt.block_on(rt.spawn(async move { instance_history_case(&dir, size, r1, t, r2).await })) {
                            Ok(r) => r,
                            Err(e) => fail("panic", format!("task panicked: {e}")),
                        });
                        if ok {
                            acc.note("instance-history", size > 1, crate::util::mix(size * 31 + t, r1.1 * 7 + r2.0 * 3 + r2.1), || case.clone());
                        }
                    });
                }
            }
        }
    }));
    // The *number* of reads of one stream: whole sparse files of 64-100 MiB (thorough: 1 GiB) drained
    // to the end, position markers every 7 MiB + 13.
    let long: Vec<(u64, u64)> = if cx.tier == Tier::Thorough { vec![((100 << 20) + 7, 0), ((64 << 20) + 1, 3), (1 << 30, 5), ((300 << 20) + 65_535, 65_537)] } else { vec![((100 << 20) + 7, 0), ((64 << 20) + 1, 3)] };
    acc.merge(par_units(cx, "long-drain", &long, false, "whole sparse files of 64 MiB and more read to the end through get_range (over a thousand reads of one stream)", |cx, &(size, a), acc| {
        let scratch = Scratch::new(&format!("c18l-{size}"));
        let polls = ((size - a) / 65536 + 4) as u32;
        let case = json!({"sparse": {"size": size, "start": a, "end": size, "polls": polls}});
        let dir = scratch.dir.clone();
        with_runtime(|rt| {
            let ok = acc.run_case(cx, "long-drain", &case, |_| match rt.block_on(rt.spawn(async move { sparse_case(&dir, size, a, size, polls).await })) {
                Ok(r) => r,
                Err(e) => fail("panic", format!("task panicked: {e}")),
            });
            if ok {
                acc.note("long-drain", true, crate::util::mix(size, a), || case.clone());
            }
        });
    }));
    let sizes: Vec<u64> = SIZES.to_vec();
    acc.merge(par_units(cx, "metadata", &sizes, true, "re-open, metadata-only inode operations one second later (chmod, hard link, rename and back, same mtime re-applied), mtime +-1ns/+-1s, append, same-length same-mtime replacement; non-regular files", |cx, &size, acc| {
        let scratch = Scratch::new(&format!("c18m-{size}"));
        let case = json!({"metadata": size});
        acc.run_case(cx, "metadata", &case, |acc| metadata_checks(&scratch.dir, size, acc));
        for (secs, nanos) in [(86_400u64, 0u32), (0, 1), (1, 500_000_000), (3_000_000_000, 999_999_999)] {
            let case = json!({"pre_epoch": [size, secs, nanos]});
            acc.run_case(cx, "metadata", &case, |acc| pre_epoch_checks(&scratch.dir, size, secs, nanos, acc));
        }
        if size == 1 || size == 65536 {
            let case = json!({"mtime_collisions": size});
            acc.run_case(cx, "metadata", &case, |acc| mtime_collision_checks(&scratch.dir, size, acc));
        }
        if size == 0 {
            let case = json!({"nonregular": true});
            acc.run_case(cx, "metadata", &case, |acc| nonregular_checks(&scratch.dir, acc));
        }
    }));
    acc
}

pub fn replay(_cx: &Cx, _phase: &str, case: &Value, acc: &mut Acc) -> Check {
    let scratch = Scratch::new("c18-replay");
    if let Some(size) = case.get("metadata").and_then(|v| v.as_u64()) {
        return metadata_checks(&scratch.dir, size, acc);
    }
    if case.get("nonregular").is_some() {
        return nonregular_checks(&scratch.dir, acc);
    }
    if let Some(v) = case.get("mtime_collisions") {
        return mtime_collision_checks(&scratch.dir, v.as_u64().unwrap_or(1), acc);
    }
    if let Some(v) = case.get("pre_epoch") {
        return pre_epoch_checks(&scratch.dir, v[0].as_u64().unwrap_or(0), v[1].as_u64().unwrap_or(0), v[2].as_u64().unwrap_or(0) as u32, acc);
    }
    if let Some(h) = case.get("history") {
        let g = |k: &str, i: usize| h[k][i].as_u64().unwrap_or(0);
        let (size, r1, t, r2) = (h["size"].as_u64().unwrap_or(1), (g("r1", 0), g("r1", 1)), h["trunc"].as_u64().unwrap_or(0), (g("r2", 0), g("r2", 1)));
        let dir = scratch.dir.clone();
        return with_runtime(|rt| match rt.block_on(rt.spawn(async move { instance_history_case(&dir, size, r1, t, r2).await })) {
            Ok(r) => r,
            Err(e) => fail("panic", format!("task panicked: {e}")),
        });
    }
    if let Some(sp) = case.get("sparse") {
        let (size, a, b) = (sp["size"].as_u64().unwrap_or(0), sp["start"].as_u64().unwrap_or(0), sp["end"].as_u64().unwrap_or(0));
        let polls = sp["polls"].as_u64().unwrap_or(6) as u32;
        let dir = scratch.dir.clone();
        return with_runtime(|rt| match rt.block_on(rt.spawn(async move { sparse_case(&dir, size, a, b, polls).await })) {
            Ok(r) => r,
            Err(e) => fail("panic", format!("task panicked: {e}")),
        });
    }
    if let Some(i) = case.get("interleaved") {
        let size = i["size"].as_u64().unwrap_or(0);
        let ranges: Vec<(u64, u64)> = serde_json::from_value(i["ranges"].clone()).unwrap_or_default();
        let order = i["order"].as_u64().unwrap_or(0);
        let dir = scratch.dir.clone();
        return with_runtime(|rt| match rt.block_on(rt.spawn(async move { interleaved_case(&dir, size, &ranges, order).await })) {
            Ok(r) => r,
            Err(e) => fail("panic", format!("task panicked: {e}")),
        });
    }
    let c: Case = serde_json::from_value(case.clone()).map_err(|e| Fail {
        sig: "replay-decode".into(),
        msg: e.to_string(),
    })?;
    with_runtime(|rt| run_case(rt, &scratch.dir, &c).map(|_| ()))
}

pub fn health(acc: &Acc) -> Vec<String> {
    let mut v = Vec::new();
    for l in ["plain", "plain:crosses-boundary", "truncated:error", "grown", "interleaved-streams", "metadata:stable", "metadata:stable-after-inode-op", "metadata:length-change", "nonregular:directory", "nonregular:dev-null"] {
        if acc.label(l) < 1 {
            v.push(format!("label {l} never seen"));
        }
    }
    v
}
