//! C16 — should_gzip implements the RFC 7231 5.3.4 preference of gzip vs identity.
//! C17 — streaming_body: coding headers agree with negotiation and with the body.

use crate::drain::{drain, DrainOpts};
use crate::engine::*;
use crate::ensure;
use crate::entity::{HarnessError, RespHead};
use crate::oracle::inflate::{gunzip_prefix, Status};
use crate::reqgen;
use crate::util::{fingerprint, Bs};
use bytes::Bytes;
use proptest::collection::vec;
use proptest::prelude::*;
use serde::{Deserialize, Serialize};
use serde_json::{json, Value};
use std::io::Write;

pub const META_C16: Meta = Meta {
    id: "C16",
    level: "exploration",
    rule: "Exhaustive: every list of 1-3 elements over codings {gzip, identity, *, br, deflate, x-gzip} (thorough: also every list of 4 elements over {gzip, identity, *, br}) x weights {none, 0, 0., 0.0, 0.000, 0.001, 0.009, 0.01, 0.05, 0.1, 0.5, 0.999, 1, 1., 1.000} (one-, two- and three-decimal spellings whose order a scaling error would change), rendered with a rotating set of optional-whitespace patterns (none, spaces, tabs, and runs mixing both in either order) around ',' and ';'; every pair of the 1001 qvalues for gzip vs identity (and adjacent pairs with *); absent and empty header; look-alike coding names (gzipx, identity2, identity-legacy, **, ...) beside the real ones; empty and whitespace-only list elements in every slot (ignored, RFC 7230 section 7); a deciding element after k in {0..100} irrelevant elements, with and without an earlier relevant element (position independence); proptest for lists of up to 40 elements and random whitespace; arbitrary HeaderValue bytes for the no-panic clause. Oracle: independent evaluator in thousandths (gzip's quality else *'s else unacceptable; identity's else *'s else least-preferred acceptable; gzip > 0 and gzip >= identity); a coding listed twice admits the answers of either occurrence. Non-trivial = at least two of {gzip, identity, *} occur, at least one with a weight; distinct by header value.",
    assumptions: &["codings and 'q' are lower case, as in the statement's domain", "a coding listed more than once: any answer consistent with one choice of occurrence is accepted"],
};

pub const META_C17: Meta = Meta {
    id: "C17",
    level: "exploration",
    rule: "Cases: Accept-Encoding from the C16 generators (and absent, and arbitrary bytes) x gzip level 0..=9 x chunk size {1,16,4096} x method {GET, HEAD, POST and eight more incl. CONNECT and extension tokens} x request given as Request and as Parts x request version {0.9, 1.0, 1.1, 2, 3} x the header given as one, two or three field lines x {no earlier body, an earlier body on the same thread whose response was dropped with unflushed bytes / whose writer was aborted / that completed} x builder call histories (earlier with_gzip_level calls overridden by the last one, with_chunk_size before or after) x small payloads of four classes. Oracle: Vary lists accept-encoding; Content-Encoding: gzip present iff should_gzip(headers) and level > 0 (the crate's own function, and on grammatical values also the C16 reference); no other Content-Encoding; after writing and dropping the writer the body is one gzip member decoding to the payload iff the header says gzip, otherwise the payload verbatim; Request and Parts agree; every non-HEAD method gets a writer. Non-trivial = weighted Accept-Encoding, or level 0 with gzip preferred; distinct by fingerprint of case.",
    assumptions: &["gzip level within the documented 0..=9"],
};

pub const CODINGS: &[&str] = &["gzip", "identity", "*", "br", "deflate", "x-gzip"];
pub const WEIGHTS: &[Option<&str>] = &[
    None,
    Some("0"),
    Some("0."),
    Some("0.0"),
    Some("0.000"),
    Some("0.001"),
    Some("0.009"),
    Some("0.01"),
    Some("0.05"),
    Some("0.1"),
    Some("0.5"),
    Some("0.999"),
    Some("1"),
    Some("1."),
    Some("1.000"),
];

/// (before ';', after ';', before ',', after ',')
pub const OWS_PATTERNS: &[(&str, &str, &str, &str)] = &[
    ("", "", "", ""),
    ("", "", "", " "),
    (" ", " ", " ", " "),
    ("", " ", "", "\t"),
    ("\t", "", " ", ""),
    ("", "", "  ", "  "),
    // runs that mix the two kinds of optional whitespace, in both orders, on every side
    (" \t", "\t ", " \t", "\t "),
    ("\t ", " \t", "\t ", " \t"),
    ("", "\t ", "", "\t "),
    (" \t", "", " \t", ""),
    ("\t \t", " \t ", "\t\t ", "  \t"),
];

pub fn render(elems: &[(usize, usize)], pat: usize) -> String {
    let (bs, as_, bc, ac) = OWS_PATTERNS[pat % OWS_PATTERNS.len()];
    let mut s = String::new();
    for (i, (c, w)) in elems.iter().enumerate() {
        if i > 0 {
            s.push_str(bc);
            s.push(',');
            s.push_str(ac);
        }
        s.push_str(CODINGS[*c]);
        if let Some(w) = WEIGHTS[*w] {
            s.push_str(bs);
            s.push(';');
            s.push_str(as_);
            s.push_str("q=");
            s.push_str(w);
        }
    }
    s
}

fn parse_q(s: &str) -> Option<u32> {
    let b = s.as_bytes();
    if b.is_empty() {
        return None;
    }
    let (int, frac) = match s.split_once('.') {
        Some((i, f)) => (i, f),
        None => (s, ""),
    };
    if frac.len() > 3 || !frac.bytes().all(|c| c.is_ascii_digit()) {
        return None;
    }
    let mut f = 0u32;
    for (i, c) in frac.bytes().enumerate() {
        f += (c - b'0') as u32 * [100, 10, 1][i];
    }
    match int {
        "0" => Some(f),
        "1" if f == 0 => Some(1000),
        _ => None,
    }
}

/// Reference evaluation. `None`: the value is not in the grammar this oracle covers.
/// `Some(answers)`: the admissible answers (two when a coding is listed more than once).
pub fn reference(v: Option<&[u8]>) -> Option<Vec<bool>> {
    let Some(v) = v else { return Some(vec![false]) };
    let s = std::str::from_utf8(v).ok()?;
    let is_ows = |c: char| c == ' ' || c == '\t';
    let mut gz: Vec<u32> = vec![];
    let mut id: Vec<u32> = vec![];
    let mut st: Vec<u32> = vec![];
    if !s.trim_matches(is_ows).is_empty() {
        for el in s.split(',') {
            let el = el.trim_matches(is_ows);
            if el.is_empty() {
                continue; // RFC 7230 section 7: a recipient ignores empty list elements
            }
            let (coding, q) = match el.split_once(';') {
                None => (el, 1000),
                Some((c, p)) => {
                    let p = p.trim_matches(is_ows);
                    let qv = p.strip_prefix("q=")?;
                    (c.trim_matches(is_ows), parse_q(qv)?)
                }
            };
            if coding.is_empty() || !coding.bytes().all(|b| b.is_ascii_alphanumeric() || b"!#$%&'*+-.^_`|~".contains(&b)) {
                return None;
            }
            match coding {
                "gzip" => gz.push(q),
                "identity" => id.push(q),
                "*" => st.push(q),
                c if c.eq_ignore_ascii_case("gzip") || c.eq_ignore_ascii_case("identity") => return None,
                _ => {}
            }
        }
    }
    let opt = |v: &Vec<u32>| -> Vec<Option<u32>> {
        if v.is_empty() {
            vec![None]
        } else {
            v.iter().map(|x| Some(*x)).collect()
        }
    };
    let mut answers = Vec::new();
    for g in opt(&gz) {
        for i in opt(&id) {
            for star in opt(&st) {
                let gq = g.or(star).unwrap_or(0);
                let iq = i.or(star).unwrap_or(1);
                let a = gq > 0 && gq >= iq;
                if !answers.contains(&a) {
                    answers.push(a);
                }
            }
        }
    }
    Some(answers)
}

fn call_should_gzip(v: Option<&[u8]>) -> Result<Option<bool>, String> {
    let mut h = http::HeaderMap::new();
    if let Some(v) = v {
        match http::HeaderValue::from_bytes(v) {
            Ok(hv) => {
                h.insert(http::header::ACCEPT_ENCODING, hv);
            }
            Err(_) => return Ok(None),
        }
    }
    crate::panics::guard(|| http_serve::should_gzip(&h)).map(Some)
}

/// `should_gzip` on a header map holding these `Accept-Encoding` field lines, in order.
fn call_should_gzip_lines(lines: &[&[u8]]) -> Result<Option<bool>, String> {
    let mut h = http::HeaderMap::new();
    for v in lines {
        match http::HeaderValue::from_bytes(v) {
            Ok(hv) => {
                h.append(http::header::ACCEPT_ENCODING, hv);
            }
            Err(_) => return Ok(None),
        }
    }
    crate::panics::guard(|| http_serve::should_gzip(&h)).map(Some)
}

pub fn check_c16(v: &Option<Bs>, acc: &mut Acc) -> Check {
    let raw = v.as_ref().map(|b| &b.0[..]);
    let got = match call_should_gzip(raw) {
        Err(m) => return fail(format!("panic:{}", crate::panics::panic_sig(&m)), format!("should_gzip panicked on {:?}: {m}", v)),
        Ok(None) => {
            acc.count("invalid-header-value-skipped");
            return Ok(());
        }
        Ok(Some(g)) => g,
    };
    let Some(want) = reference(raw) else {
        acc.note("ungrammatical:no-panic", true, fingerprint(v), || json!({"accept_encoding": v, "should_gzip": got}));
        return Ok(());
    };
    let show = v.as_ref().map(|b| b.show());
    if !want.contains(&got) {
        // Signature: the relation between the qualities involved.
        let s = String::from_utf8_lossy(raw.unwrap_or(b""));
        let has = |c: &str| s.split(',').any(|e| e.split(';').next().unwrap_or("").trim() == c);
        return fail(
            format!("want-{}-got-{}:gzip={} identity={} star={}", want[0], got, has("gzip"), has("identity"), has("*")),
            format!("Accept-Encoding {:?}: should_gzip returned {got}, the statement gives {:?}", show, want),
        );
    }
    let s = String::from_utf8_lossy(raw.unwrap_or(b"")).to_string();
    let relevant = s.split(',').filter(|e| matches!(e.split(';').next().unwrap_or("").trim(), "gzip" | "identity" | "*")).count();
    let label = match raw {
        None => "absent".to_string(),
        Some(b) if b.is_empty() => "empty".to_string(),
        _ => format!("{}{}", if got { "gzip" } else { "identity" }, if want.len() > 1 { ":duplicate-coding" } else { "" }),
    };
    acc.note(&label, relevant >= 2 && s.contains("q="), fingerprint(v), || json!({"accept_encoding": show, "should_gzip": got}));
    Ok(())
}

fn elems_strategy(max: usize) -> BoxedStrategy<String> {
    (vec((0..CODINGS.len(), 0..WEIGHTS.len()), 1..=max), 0..OWS_PATTERNS.len())
        .prop_map(|(e, p)| render(&e, p))
        .boxed()
}

pub fn ae_strategy() -> BoxedStrategy<Option<Bs>> {
    prop_oneof![
        1 => Just(None),
        1 => Just(Some(Bs::s(""))),
        8 => elems_strategy(4).prop_map(|s| Some(Bs::s(&s))),
        3 => elems_strategy(8).prop_map(|s| Some(Bs::s(&s))),
        2 => elems_strategy(40).prop_map(|s| Some(Bs::s(&s))),
        // random whitespace runs
        2 => (elems_strategy(4), vec(prop_oneof![Just(' '), Just('\t')], 0..3)).prop_map(|(s, ws)| {
            let w: String = ws.into_iter().collect();
            Some(Bs::s(&s.replace(',', &format!("{w},{w}"))))
        }),
        // empty and whitespace-only list elements (leading, trailing, doubled commas)
        2 => (elems_strategy(4), vec((any::<u16>(), proptest::sample::select(&[",", ", ", " ,", ",\t,", " , , ", ",,"][..])), 1..=3)).prop_map(|(s, ins)| {
            let mut parts: Vec<String> = s.split(',').map(|x| x.to_string()).collect();
            for (at, what) in ins {
                let i = (at as usize * (parts.len() + 1)) >> 16;
                let i = i.min(parts.len());
                // an element that is empty or only whitespace, placed between two commas
                parts.insert(i, what.trim_matches(',').to_string());
            }
            Some(Bs::s(&parts.join(",")))
        }),
        3 => reqgen::arbitrary_value().prop_map(Some),
        2 => (elems_strategy(3), any::<u16>(), reqgen::header_byte()).prop_map(|(s, at, b)| {
            let mut v = s.into_bytes();
            let i = (at as usize * (v.len() + 1)) >> 16;
            v.insert(i.min(v.len()), b);
            Some(Bs(v))
        }),
    ]
    .boxed()
}

pub fn run_c16(cx: &Cx) -> Acc {
    let mut acc = Acc::new();
    let max_len = 3usize;
    let n_el = CODINGS.len() * WEIGHTS.len();
    // unit = first element; the rest is enumerated inside.
    let units: Vec<usize> = (0..n_el).collect();
    acc.merge(par_units(cx, "exhaustive-lists", &units, true, "every list of 1..=N elements over 6 codings x 11 weights, whitespace pattern rotating", |cx, &first, acc| {
        let el = |i: usize| (i / WEIGHTS.len(), i % WEIGHTS.len());
        let mut list = vec![el(first)];
        let mut counter = first;
        fn rec(cx: &Cx, list: &mut Vec<(usize, usize)>, max: usize, n_el: usize, counter: &mut usize, acc: &mut Acc) {
            *counter += 1;
            let v = Some(Bs::s(&render(list, *counter)));
            acc.run_case(cx, "exhaustive-lists", &v, |acc| check_c16(&v, acc));
            if list.len() < max {
                for i in 0..n_el {
                    list.push((i / WEIGHTS.len(), i % WEIGHTS.len()));
                    rec(cx, list, max, n_el, counter, acc);
                    list.pop();
                }
            }
        }
        rec(cx, &mut list, max_len, n_el, &mut counter, acc);
    }));
    if cx.tier == Tier::Thorough {
        // 4-element lists over the codings that matter (+ one that does not).
        let sub = 4 * WEIGHTS.len();
        let units4: Vec<usize> = (0..sub * sub).collect();
        acc.merge(par_units(cx, "exhaustive-4-lists", &units4, true, "every list of 4 elements over {gzip, identity, *, br} x 15 weights", |cx, &ab, acc| {
            let el = |i: usize| (i / WEIGHTS.len(), i % WEIGHTS.len());
            let (a, b) = (ab / sub, ab % sub);
            for c in 0..sub {
                for d in 0..sub {
                    let v = Some(Bs::s(&render(&[el(a), el(b), el(c), el(d)], a + b + c + d)));
                    acc.run_case(cx, "exhaustive-4-lists", &v, |acc| check_c16(&v, acc));
                }
            }
        }));
    }
    // Every pair of qvalues 0.000 ..= 1.000 for gzip vs identity (1001 x 1001), and the adjacent
    // pairs for each of the other coding combinations, in the shortest and in the 3-decimal spelling.
    let rows: Vec<u32> = (0..=1000).collect();
    acc.merge(par_units(cx, "all-qvalue-pairs", &rows, true, "gzip;q=A, identity;q=B for all 1001 x 1001 qvalues; *-combinations for |A-B| <= 1", |cx, &a, acc| {
        let spell = |q: u32, long: bool| -> String {
            if q == 1000 {
                return if long { "1.000".into() } else { "1".into() };
            }
            let s = format!("0.{q:03}");
            if long {
                s
            } else {
                let t = s.trim_end_matches('0');
                if t == "0." { "0".into() } else { t.to_string() }
            }
        };
        for b in 0..=1000u32 {
            let long = (a + b) % 2 == 0;
            let v = Some(Bs::s(&format!("gzip;q={}, identity;q={}", spell(a, long), spell(b, !long))));
            acc.run_case(cx, "all-qvalue-pairs", &v, |acc| check_c16(&v, acc));
            if a.abs_diff(b) <= 1 {
                for (x, y) in [("*", "identity"), ("gzip", "*"), ("identity", "gzip")] {
                    let v = Some(Bs::s(&format!("{x};q={},{y};q={}", spell(a, !long), spell(b, long))));
                    acc.run_case(cx, "all-qvalue-pairs", &v, |acc| check_c16(&v, acc));
                }
            }
        }
    }));
    // List *length*: a deciding element after k elements that do not matter (other codings), with
    // or without an earlier relevant element of another coding.
    let fillers: Vec<usize> = vec![0, 1, 2, 3, 5, 7, 8, 9, 15, 16, 17, 31, 32, 33, 63, 64, 100];
    acc.merge(par_units(cx, "long-lists", &fillers, true, "[relevant element]? + k other codings + every element, k in {0..100}: position independence", |cx, &k, acc| {
        let relevant: Vec<(usize, usize)> = (0..3).flat_map(|c| (0..WEIGHTS.len()).map(move |w| (c, w))).collect();
        for first in std::iter::once(None).chain(relevant.iter().copied().map(Some)) {
            for last_c in 0..CODINGS.len() {
                if first.map_or(false, |(c, _)| c == last_c) {
                    continue; // the same coding twice admits either occurrence: says nothing
                }
                for last_w in 0..WEIGHTS.len() {
                    let mut list: Vec<(usize, usize)> = Vec::new();
                    list.extend(first);
                    for i in 0..k {
                        list.push((3 + i % 3, if i % 4 == 3 { 7 } else { 0 }));
                    }
                    list.push((last_c, last_w));
                    let v = Some(Bs::s(&render(&list, k + last_w)));
                    acc.run_case(cx, "long-lists", &v, |acc| check_c16(&v, acc));
                }
            }
        }
    }));
    // Coding *names* that resemble the three that matter (prefixes, extensions, doubled stars): they
    // are other codings and must not count as gzip / identity / *.
    let near: Vec<&str> = vec!["gzipx", "gzip2", "gzi", "xgzip", "identity2", "identityx", "identity-legacy", "identit", "x-identity", "**", "*gzip", "gzip*"];
    acc.merge(par_units(cx, "near-name-codings", &near, true, "every list of 2-3 elements in which a look-alike coding name (with weights none / 0 / 0.1 / 1) stands before, between or after gzip / identity / * elements", |cx, name, acc| {
        let relevant: Vec<(usize, usize)> = (0..3).flat_map(|c| [0usize, 1, 9, 10, 12].into_iter().filter(|w| *w < WEIGHTS.len()).map(move |w| (c, w))).collect();
        for q in ["", ";q=0", ";q=0.1", ";q=1"] {
            let look = format!("{name}{q}");
            for a in &relevant {
                let x = render(&[*a], 0);
                for v in [format!("{x}, {look}"), format!("{look}, {x}")] {
                    let v = Some(Bs::s(&v));
                    acc.run_case(cx, "near-name-codings", &v, |acc| check_c16(&v, acc));
                }
                for b in &relevant {
                    if a.0 == b.0 {
                        continue;
                    }
                    let y = render(&[*b], 0);
                    for v in [format!("{x}, {y}, {look}"), format!("{x}, {look}, {y}"), format!("{look}, {x}, {y}")] {
                        let v = Some(Bs::s(&v));
                        acc.run_case(cx, "near-name-codings", &v, |acc| check_c16(&v, acc));
                    }
                }
            }
        }
    }));
    // Every whitespace pattern on every list of 1-2 elements (the exhaustive phase rotates them).
    let pats: Vec<usize> = (0..OWS_PATTERNS.len()).collect();
    acc.merge(par_units(cx, "all-whitespace-patterns", &pats, true, "every list of 1-2 elements over 6 codings x 15 weights under each optional-whitespace pattern", |cx, &pat, acc| {
        let n_el = CODINGS.len() * WEIGHTS.len();
        let el = |i: usize| (i / WEIGHTS.len(), i % WEIGHTS.len());
        for a in 0..n_el {
            let v = Some(Bs::s(&render(&[el(a)], pat)));
            acc.run_case(cx, "all-whitespace-patterns", &v, |acc| check_c16(&v, acc));
            for b in 0..n_el {
                let v = Some(Bs::s(&render(&[el(a), el(b)], pat)));
                acc.run_case(cx, "all-whitespace-patterns", &v, |acc| check_c16(&v, acc));
            }
        }
    }));
    // Empty list elements (RFC 7230 section 7: ignored), bare and holding whitespace, in every slot of
    // every list of 1-2 relevant elements.
    let empties: Vec<&str> = vec!["", " ", "\t", "  "];
    acc.merge(par_units(cx, "empty-elements", &empties, true, "every list of 1-2 elements over {gzip, identity, *} x 15 weights with an empty / blank element before, between or after", |cx, e, acc| {
        let relevant: Vec<(usize, usize)> = (0..3).flat_map(|c| (0..WEIGHTS.len()).map(move |w| (c, w))).collect();
        for a in &relevant {
            let one = render(&[*a], 0);
            for v in [format!("{e},{one}"), format!("{one},{e}"), format!("{e},{one},{e}"), format!("{one} ,{e}, ")] {
                let v = Some(Bs::s(&v));
                acc.run_case(cx, "empty-elements", &v, |acc| check_c16(&v, acc));
            }
            for b in &relevant {
                if a.0 == b.0 {
                    continue;
                }
                let (x, y) = (render(&[*a], 0), render(&[*b], 0));
                for v in [format!("{x},{e},{y}"), format!("{e},{x},{y},{e}"), format!("{x}, {e} ,{y}")] {
                    let v = Some(Bs::s(&v));
                    acc.run_case(cx, "empty-elements", &v, |acc| check_c16(&v, acc));
                }
            }
        }
    }));
    let fixed: Vec<Option<Bs>> = vec![None, Some(Bs::s("")), Some(Bs::s(" ")), Some(Bs::s("\t"))];
    acc.merge(par_units(cx, "absent-empty", &fixed, true, "absent, empty and blank header", |cx, v, acc| {
        acc.run_case(cx, "absent-empty", v, |acc| check_c16(v, acc));
    }));
    let n = cx.tier.pick(1u64, 20u64);
    acc.merge(par_proptest(cx, "random", 300_000 * n, ae_strategy, |v, acc| check_c16(v, acc)));
    acc
}

pub fn replay_c16(_cx: &Cx, _phase: &str, case: &Value, acc: &mut Acc) -> Check {
    let v: Option<Bs> = serde_json::from_value(case.clone()).map_err(|e| Fail {
        sig: "replay-decode".into(),
        msg: e.to_string(),
    })?;
    check_c16(&v, acc)
}

pub fn health_c16(acc: &Acc) -> Vec<String> {
    let mut v = Vec::new();
    for l in ["gzip", "identity", "absent", "empty", "ungrammatical:no-panic", "gzip:duplicate-coding"] {
        if acc.label(l) < 1 {
            v.push(format!("label {l} never seen"));
        }
    }
    v
}

// ------------------------------------------------------------------------------------------------

#[derive(Clone, Debug, Serialize, Deserialize)]
pub struct Case17 {
    pub accept_encoding: Option<Bs>,
    pub level: u32,
    pub chunk: usize,
    pub method: String,
    pub payload: crate::props::stream::Payload,
    pub payload_len: u32,
    /// earlier `with_gzip_level` calls on the same builder, overridden by `level` (the last call)
    #[serde(default)]
    pub earlier_levels: Vec<u32>,
    /// call `with_chunk_size` before (false) or after (true) the level calls
    #[serde(default)]
    pub chunk_last: bool,
    /// how the payload is handed to the writer: 0 write_all, 1 loop over write, 2 loop over
    /// write_vectored with two slices split at `payload_len * 3 / 4`
    #[serde(default)]
    pub write_mode: u8,
    /// further `Accept-Encoding` field lines after the first (`HeaderMap::append`)
    #[serde(default)]
    pub more_lines: Vec<Bs>,
    /// an earlier streaming body on the same thread (same chunk size) before this one: 0 none;
    /// 1 response dropped with unflushed bytes in the writer, then the writer dropped; 2 writer
    /// aborted; 3 written, dropped and drained normally. Bodies must not influence each other.
    #[serde(default)]
    pub prior: u8,
    /// request version: 0 the `http` crate's default (HTTP/1.1), 1 HTTP/1.0, 2 HTTP/0.9, 3 HTTP/2, 4 HTTP/3
    #[serde(default)]
    pub version: u8,
}

struct Built {
    head: RespHead,
    body: Option<Vec<u8>>,
    clean: bool,
    has_writer: bool,
}

fn build17(c: &Case17, as_parts: bool, payload: &[u8]) -> Result<Built, String> {
    crate::panics::guard(|| {
        if c.prior > 0 {
            // An unrelated earlier response on this thread.
            let req = http::Request::builder().method("GET").uri("/earlier").header("accept-encoding", if c.prior == 2 { "gzip" } else { "identity" }).body(()).unwrap();
            let (resp, w) = http_serve::streaming_body(&req).with_chunk_size(c.chunk).build::<Bytes, HarnessError>();
            let mut w = w.expect("writer");
            let stale = vec![0xEEu8; c.chunk.saturating_sub(1).clamp(1, 37)];
            let _ = w.write_all(&stale);
            match c.prior {
                1 => {
                    drop(resp); // the client went away with bytes still unflushed in the writer
                    let _ = w.flush();
                    drop(w);
                }
                2 => {
                    w.abort(HarnessError::Injected(17));
                    drop(resp);
                }
                _ => {
                    drop(w);
                    let _ = crate::drain::drain(resp.into_body(), DrainOpts::default());
                }
            }
        }
        let mut b = http::Request::builder().method(c.method.as_str()).uri("/").version(match c.version {
            1 => http::Version::HTTP_10,
            2 => http::Version::HTTP_09,
            3 => http::Version::HTTP_2,
            4 => http::Version::HTTP_3,
            _ => http::Version::HTTP_11,
        });
        if let Some(ae) = &c.accept_encoding {
            b = b.header("accept-encoding", http::HeaderValue::from_bytes(&ae.0).unwrap());
        }
        for l in &c.more_lines {
            b = b.header("accept-encoding", http::HeaderValue::from_bytes(&l.0).unwrap());
        }
        let req = b.body(()).unwrap();
        let builder = if as_parts {
            let (parts, _) = req.into_parts();
            http_serve::streaming_body(&parts)
        } else {
            http_serve::streaming_body(&req)
        };
        let mut builder = builder;
        if !c.chunk_last {
            builder = builder.with_chunk_size(c.chunk);
        }
        for l in &c.earlier_levels {
            builder = builder.with_gzip_level(*l);
        }
        builder = builder.with_gzip_level(c.level);
        if c.chunk_last {
            builder = builder.with_chunk_size(c.chunk);
        }
        let (resp, w) = builder.build::<Bytes, HarnessError>();
        let head = RespHead::of(&resp);
        let has_writer = w.is_some();
        if let Some(mut w) = w {
            match c.write_mode {
                1 => {
                    let mut rest = payload;
                    while !rest.is_empty() {
                        match w.write(rest) {
                            Ok(0) | Err(_) => break,
                            Ok(k) => rest = &rest[k.min(rest.len())..],
                        }
                    }
                }
                2 => {
                    // advance by the returned count, as std's write_all_vectored does
                    let mut done = 0usize;
                    while done < payload.len() {
                        let rest = &payload[done..];
                        let cut = (rest.len() * 3 / 4).max(1).min(rest.len());
                        match w.write_vectored(&[std::io::IoSlice::new(&rest[..cut]), std::io::IoSlice::new(&rest[cut..])]) {
                            Ok(0) | Err(_) => break,
                            Ok(k) => done += k.min(rest.len()),
                        }
                    }
                }
                _ => {
                    let _ = w.write_all(payload);
                }
            }
        }
        let t = drain(resp.into_body(), DrainOpts { extra_polls: 0, ..Default::default() });
        Built {
            head,
            clean: t.ended_cleanly(),
            body: Some(t.body),
            has_writer,
        }
    })
}

pub fn check_c17(c: &Case17, acc: &mut Acc) -> Check {
    let raw = c.accept_encoding.as_ref().map(|b| &b.0[..]);
    let lines: Vec<&[u8]> = raw.into_iter().chain(c.more_lines.iter().map(|b| &b.0[..])).collect();
    let sg = match call_should_gzip_lines(&lines) {
        Ok(Some(b)) => b,
        Ok(None) => {
            acc.count("invalid-header-value-skipped");
            return Ok(());
        }
        Err(_) => {
            acc.count("should_gzip-panicked(see C16)");
            return Ok(());
        }
    };
    let payload: Vec<u8> = (0..c.payload_len as u64).map(|i| crate::props::stream::payload_byte(c.payload, i)).collect();
    let what = || format!("case {}", serde_json::to_string(c).unwrap_or_default());
    let mut builds = Vec::new();
    for parts in [false, true] {
        match build17(c, parts, &payload) {
            Ok(b) => builds.push(b),
            Err(m) => return fail("streaming-body-panic", format!("streaming_body/build panicked: {m}; {}", what())),
        }
    }
    let want_gzip = sg && c.level > 0;
    for (i, b) in builds.iter().enumerate() {
        let repr = if i == 0 { "Request" } else { "Parts" };
        let vary: Vec<String> = b
            .head
            .all("vary")
            .iter()
            .flat_map(|v| String::from_utf8_lossy(v).split(',').map(|s| s.trim().to_ascii_lowercase()).collect::<Vec<_>>())
            .collect();
        ensure!(vary.iter().any(|v| v == "accept-encoding"), format!("vary-missing:{repr}"), "Vary is {:?}; {}", vary, what());
        let ce: Vec<Vec<u8>> = b.head.all("content-encoding").iter().map(|v| v.to_vec()).collect();
        let says_gzip = ce.iter().any(|v| v.eq_ignore_ascii_case(b"gzip"));
        ensure!(
            ce.iter().all(|v| v.eq_ignore_ascii_case(b"gzip")) && ce.len() <= 1,
            format!("content-encoding-other:{repr}"),
            "Content-Encoding is {:?}; {}",
            ce.iter().map(|v| crate::util::show_bytes(v)).collect::<Vec<_>>(),
            what()
        );
        ensure!(
            says_gzip == want_gzip,
            format!("content-encoding-{}-but-negotiation-{}:{repr}:level{}", says_gzip, want_gzip, if c.level == 0 { "0" } else { "N" }),
            "Content-Encoding gzip present: {says_gzip}; should_gzip: {sg}, level {}; {}",
            c.level,
            what()
        );
        if c.method == "HEAD" {
            ensure!(!b.has_writer, format!("head-writer:{repr}"), "HEAD got a writer; {}", what());
            continue;
        }
        ensure!(b.has_writer, format!("no-writer:{repr}:{}", c.method), "method {} got no writer; {}", c.method, what());
        ensure!(b.clean, format!("body-not-clean:{repr}"), "body did not end cleanly; {}", what());
        let body = b.body.as_ref().unwrap();
        if says_gzip {
            let d = gunzip_prefix(body);
            let ok = matches!(d.status, Status::Complete { consumed, crc_ok: true, isize_ok: true } if consumed == body.len()) && d.out == payload;
            ensure!(
                ok,
                format!("header-gzip-body-not:{repr}"),
                "Content-Encoding: gzip but the body ({} bytes) is not one gzip member of the payload ({} bytes): {:?}; {}",
                body.len(),
                payload.len(),
                d.status,
                what()
            );
        } else {
            ensure!(
                *body == payload,
                format!("header-identity-body-not:{repr}"),
                "no Content-Encoding but the body ({} bytes) is not the payload ({} bytes) verbatim; {}",
                body.len(),
                payload.len(),
                what()
            );
        }
    }
    ensure!(
        builds[0].head.multiset_without(&[]) == builds[1].head.multiset_without(&[]) && builds[0].body == builds[1].body,
        "request-vs-parts",
        "Request and Parts representations give different results; {}",
        what()
    );
    // On grammatical values the crate's should_gzip must agree with the reference (else C16 fails; counted here).
    if let Some(r) = reference(raw).filter(|_| c.more_lines.is_empty()) {
        if !r.contains(&sg) {
            acc.count("should_gzip-disagrees-with-reference(see C16)");
        }
    }
    let weighted = raw.map_or(false, |v| v.windows(2).any(|w| w == b"q="));
    let label = format!("{}:{}", c.method, if want_gzip { "gzip" } else if sg { "identity-level0" } else { "identity" });
    acc.note(&label, weighted || (sg && c.level == 0), fingerprint(c), || json!({"case": c, "content_encoding_gzip": want_gzip, "body_len": builds[0].body.as_ref().map(|b| b.len())}));
    Ok(())
}

fn c17_strategy() -> BoxedStrategy<Case17> {
    // a quarter of the cases repeat the header: one or two more field lines
    (c17_single_line_strategy(), prop_oneof![3 => Just(vec![]), 1 => vec(ae_strategy().prop_filter_map("absent", |v| v), 1..=2)])
        .prop_map(|(mut c, more)| {
            if c.accept_encoding.is_some() {
                c.more_lines = more;
            }
            // a third of the cases follow an earlier body on the same thread
            c.version = ((c.payload_len / 3 + c.chunk as u32) % 8) as u8 % 5;
            c.prior = match (c.payload_len + c.level) % 9 {
                0 => 1,
                1 => 2,
                2 => 3,
                _ => 0,
            };
            c
        })
        .boxed()
}

fn c17_single_line_strategy() -> BoxedStrategy<Case17> {
    (
        ae_strategy(),
        prop_oneof![2 => Just(0u32), 5 => 1u32..=9],
        proptest::sample::select(&[1usize, 16, 4096][..]),
        proptest::sample::select(&["GET", "HEAD", "POST", "GET", "HEAD", "POST", "PUT", "DELETE", "CONNECT", "OPTIONS", "TRACE", "PATCH", "PROPFIND", "X-CUSTOM"][..]),
        crate::props::stream::payload_strategy(),
        prop_oneof![30 => 0u32..40, 20 => 40u32..3000, 1 => 60_000u32..260_000],
        prop_oneof![3 => Just(vec![]), 2 => vec(0u32..=9, 1..=2)],
        any::<bool>(),
        0u8..3,
    )
        .prop_map(|(accept_encoding, level, chunk, method, payload, payload_len, earlier_levels, chunk_last, write_mode)| Case17 {
            accept_encoding,
            level,
            chunk: if payload_len > 10_000 && chunk < 4096 { 4096 } else { chunk },
            method: method.to_string(),
            payload,
            payload_len,
            earlier_levels,
            chunk_last,
            write_mode,
            more_lines: vec![],
            prior: 0,
            version: 0,
        })
        .boxed()
}

pub fn run_c17(cx: &Cx) -> Acc {
    let mut acc = Acc::new();
    // Enumerated core: AE samples x level x chunk x method.
    let aes: Vec<Option<Bs>> = std::iter::once(None)
        .chain(crate::props::c15::AE_SAMPLES.iter().map(|s| Some(Bs::s(s))))
        .collect();
    acc.merge(par_units(cx, "enumerated", &aes, true, "16 Accept-Encoding values x level 0..=9 x chunk {1,16,4096} x {GET,HEAD,POST}", |cx, ae, acc| {
        for level in 0..=9 {
            for chunk in [1usize, 16, 4096] {
                for method in ["GET", "HEAD", "POST"] {
                    let c = Case17 {
                        accept_encoding: ae.clone(),
                        level,
                        chunk,
                        method: method.into(),
                        payload: crate::props::stream::Payload::Mixed,
                        payload_len: 700,
                        earlier_levels: vec![],
                        chunk_last: false,
                        write_mode: (level as u8 + chunk as u8) % 3,
                        more_lines: vec![],
            prior: 0,
            version: 0,
                    };
                    acc.run_case(cx, "enumerated", &c, |acc| check_c17(&c, acc));
                    // every other method behaves like POST (a writer, header and body in agreement)
                    if chunk == 16 && method == "POST" {
                        for m in ["PUT", "DELETE", "CONNECT", "OPTIONS", "TRACE", "PATCH", "PROPFIND", "X-CUSTOM"] {
                            let c5 = Case17 { method: m.into(), ..c.clone() };
                            acc.run_case(cx, "enumerated", &c5, |acc| check_c17(&c5, acc));
                        }
                    }
                    // the request's HTTP version plays no part
                    if chunk == 16 {
                        for version in 1..=4u8 {
                            let c4 = Case17 { version, ..c.clone() };
                            acc.run_case(cx, "enumerated", &c4, |acc| check_c17(&c4, acc));
                        }
                    }
                    // an earlier body on the same thread must not show in this one
                    if method == "GET" {
                        for prior in 1..=3u8 {
                            let c3 = Case17 { prior, ..c.clone() };
                            acc.run_case(cx, "enumerated", &c3, |acc| check_c17(&c3, acc));
                        }
                    }
                    // the level set last wins: every earlier level, both call orders
                    if chunk == 16 && method != "POST" {
                        for earlier in 0..=9u32 {
                            let c2 = Case17 { earlier_levels: vec![earlier], chunk_last: earlier % 2 == 0, ..c.clone() };
                            acc.run_case(cx, "enumerated", &c2, |acc| check_c17(&c2, acc));
                        }
                    }
                }
            }
        }
    }));
    // The header repeated: every pair and triple of field lines over a small alphabet.
    let lines: Vec<&str> = vec!["gzip", "gzip;q=0", "identity", "identity;q=0", "*", "*;q=0", "br", "", "gzip;q=0.5", "identity;q=0.6"];
    acc.merge(par_units(cx, "repeated-header", &lines, true, "2-3 Accept-Encoding field lines over 10 values x level {0,1,6} x {GET,HEAD,POST}: the coding follows should_gzip(headers) for the whole map", |cx, first, acc| {
        for second in &lines {
            for third in std::iter::once(None).chain(lines.iter().map(Some)) {
                for level in [0u32, 1, 6] {
                    for method in ["GET", "HEAD", "POST"] {
                        let mut more = vec![Bs::s(second)];
                        more.extend(third.map(|t| Bs::s(t)));
                        let c = Case17 {
                            accept_encoding: Some(Bs::s(first)),
                            level,
                            chunk: 16,
                            method: method.into(),
                            payload: crate::props::stream::Payload::Mixed,
                            payload_len: 300,
                            earlier_levels: vec![],
                            chunk_last: false,
                            write_mode: 0,
                            more_lines: more,
                            prior: 0,
                            version: 0,
                        };
                        acc.run_case(cx, "repeated-header", &c, |acc| check_c17(&c, acc));
                    }
                }
            }
        }
    }));
    let n = cx.tier.pick(1u64, 15u64);
    acc.merge(par_proptest(cx, "random", 100_000 * n, c17_strategy, |c, acc| check_c17(c, acc)));
    // Large incompressible payloads through every write method, gzip preferred, every level.
    let big: Vec<(u32, u8)> = (0..=9u32).flat_map(|l| (0..3u8).map(move |m| (l, m))).collect();
    acc.merge(par_units(cx, "large-payloads", &big, true, "200 000 incompressible bytes, Accept-Encoding: gzip, level 0..=9 x {write_all, write loop, write_vectored loop}", |cx, &(level, write_mode), acc| {
        let c = Case17 {
            accept_encoding: Some(Bs::s("gzip")),
            level,
            chunk: 4096,
            method: "GET".into(),
            payload: crate::props::stream::Payload::Hash,
            payload_len: 200_000,
            earlier_levels: vec![],
            chunk_last: false,
            write_mode,
            more_lines: vec![],
            prior: 0,
            version: 0,
        };
        acc.run_case(cx, "large-payloads", &c, |acc| check_c17(&c, acc));
    }));
    acc
}

pub fn replay_c17(_cx: &Cx, _phase: &str, case: &Value, acc: &mut Acc) -> Check {
    let c: Case17 = serde_json::from_value(case.clone()).map_err(|e| Fail {
        sig: "replay-decode".into(),
        msg: e.to_string(),
    })?;
    check_c17(&c, acc)
}

pub fn health_c17(acc: &Acc) -> Vec<String> {
    let mut v = Vec::new();
    for l in ["GET:gzip", "GET:identity", "GET:identity-level0", "HEAD:gzip", "POST:gzip", "POST:identity"] {
        if acc.label(l) < 50 {
            v.push(format!("label {l} seen only {} times", acc.label(l)));
        }
    }
    v
}
