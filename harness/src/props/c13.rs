//! C13 — serve() is total on untrusted request input.

use crate::drain::DrainOpts;
use crate::engine::*;
use crate::ensure;
use crate::entity::{EntitySpec, ReqSpec};
use crate::panics::panic_sig;
use crate::reqgen;
use crate::served::{serve_case, ServeFailure};
use crate::util::{fingerprint, Bs};
use proptest::collection::vec;
use proptest::prelude::*;
use serde::{Deserialize, Serialize};
use serde_json::{json, Value};

pub const META: Meta = Meta {
    id: "C13",
    level: "exploration",
    rule: "Cases are (entity, method, header lines): methods from the standard set, lower-case look-alikes and random extension tokens; each of Range, If-Range, If-Match, If-None-Match, If-Modified-Since, If-Unmodified-Since appears 0-3 times with a value that is arbitrary HeaderValue bytes, a grammar-derived near-miss (well-formed value with one random edit), a boundary number form, or well-formed; entity length from {0,1,small,2^32,2^63,2^64-1,...} x ETag / mtime presence; plus requests with 9-400 range specs and the C06 multipart / near-overflow generator. Oracle: no panic in serve() or while draining, status in {200,206,304,400,405,412,413,416}, non-GET/HEAD => 405 with Allow naming GET and HEAD and no get_range call. Non-trivial = at least one malformed header value, a repeated header, or a non-GET method; distinct by fingerprint of the case.",
    assumptions: &[
        "request values are limited to what http::HeaderValue / http::Method accept (the stated domain)",
        "bodies are drained up to a bounded prefix for astronomically large entities",
    ],
};

#[derive(Clone, Debug, Serialize, Deserialize)]
pub struct Case {
    pub ent: EntitySpec,
    pub req: ReqSpec,
    /// number of header values produced by a malformed-value generator (classification only)
    #[serde(default)]
    pub malformed: u32,
}

const ALLOWED: &[u16] = &[200, 206, 304, 400, 405, 412, 413, 416];

pub fn check(c: &Case, acc: &mut Acc) -> Check {
    let opts = DrainOpts {
        max_bytes: if light() { 6000 } else if c.ent.len > 1 << 20 { 100_000 } else { 1 << 21 },
        max_frames: if light() { 64 } else if c.ent.len > 1 << 20 { 1024 } else { 1 << 20 },
        extra_polls: 0,
        ..Default::default()
    };
    let served = match serve_case(&c.ent, &c.req, opts) {
        Ok(s) => s,
        Err(ServeFailure::BadRequestSpec) => {
            acc.count("invalid-request-spec-skipped");
            return Ok(());
        }
        Err(ServeFailure::Panic(m)) => {
            return fail(
                format!("serve-panic:{}", panic_sig(&m)),
                format!("serve() panicked: {m}; entity len={} etag={:?} mtime={:?}; request {} {:?}", c.ent.len, c.ent.etag, c.ent.mtime, c.req.method, c.req.headers),
            )
        }
    };
    if let Some(m) = served.trace.panicked() {
        return fail(
            format!("drain-panic:{}", panic_sig(m)),
            format!("draining the body panicked: {m}; entity len={}; request {} {:?}", c.ent.len, c.req.method, c.req.headers),
        );
    }
    let st = served.head.status;
    ensure!(
        ALLOWED.contains(&st),
        format!("status-{st}"),
        "unexpected status {st}; request {} {:?}",
        c.req.method,
        c.req.headers
    );
    let is_get_head = c.req.method == "GET" || c.req.method == "HEAD";
    if !is_get_head {
        ensure!(st == 405, format!("method-{st}"), "method {} answered with {st}, not 405", c.req.method);
        let allow: Vec<String> = served
            .head
            .all("allow")
            .iter()
            .flat_map(|v| String::from_utf8_lossy(v).split(',').map(|s| s.trim().to_ascii_uppercase()).collect::<Vec<_>>())
            .collect();
        ensure!(
            allow.iter().any(|a| a == "GET") && allow.iter().any(|a| a == "HEAD"),
            "405-allow",
            "405 Allow header {:?} does not name GET and HEAD",
            allow
        );
        ensure!(
            served.log.ranges.is_empty(),
            "405-read-entity",
            "method {} made serve call get_range {:?}",
            c.req.method,
            served.log.ranges
        );
    } else {
        ensure!(st != 405, "get-head-405", "{} answered 405", c.req.method);
    }
    let repeated = {
        let mut names: Vec<&str> = c.req.headers.iter().map(|h| h.0.as_str()).collect();
        names.sort();
        names.windows(2).any(|w| w[0].eq_ignore_ascii_case(w[1]))
    };
    let many = c.req.first("range").map_or(false, |r| r.iter().filter(|b| **b == b',').count() >= 8);
    let nontrivial = c.malformed > 0 || repeated || !is_get_head || many;
    acc.note(&format!("status-{st}"), nontrivial, fingerprint(c), || {
        json!({"entity_len": c.ent.len, "etag": c.ent.etag, "mtime": c.ent.mtime, "request": c.req, "status": st, "malformed_values": c.malformed})
    });
    if served.trace.capped {
        acc.count("drained-prefix-only");
    }
    Ok(())
}

pub const METHODS: &[&str] = &[
    "GET", "HEAD", "POST", "PUT", "DELETE", "CONNECT", "OPTIONS", "TRACE", "PATCH", "get", "head", "Get", "GETT", "HEAD2", "PROPFIND", "QUERY",
    "G", "!", "a-b.c~d", "GE",
];

fn method_strategy() -> BoxedStrategy<String> {
    let tchar = "!#$%&'*+-.^_`|~0123456789abcdefghijklmnopqrstuvwxyzABCDEFGHIJKLMNOPQRSTUVWXYZ";
    let chars: Vec<char> = tchar.chars().collect();
    prop_oneof![
        8 => Just("GET".to_string()),
        2 => Just("HEAD".to_string()),
        3 => proptest::sample::select(METHODS).prop_map(|s| s.to_string()),
        1 => vec(proptest::sample::select(chars), 1..12).prop_map(|v| v.into_iter().collect()),
    ]
    .boxed()
}

const NUMBERS: &[&str] = &[
    "0", "1", "18446744073709551614", "18446744073709551615", "18446744073709551616", "9223372036854775807", "9223372036854775808",
    "4294967295", "4294967296", "99999999999999999999999999999", "00000000000000000000000000001", "-1", "+1", "1e9", "0x10", "",
];

fn edit(v: Vec<u8>, at: u16, byte: u8, op: u8) -> Vec<u8> {
    let mut b = v;
    let i = (at as usize * (b.len() + 1)) >> 16;
    match op % 4 {
        0 if i < b.len() => b[i] = byte,
        1 => b.insert(i.min(b.len()), byte),
        2 if i < b.len() => {
            b.remove(i);
        }
        _ => b.truncate(i),
    }
    b
}

/// (value, malformed?)
fn value_for(name: &'static str, ent: &EntitySpec) -> BoxedStrategy<(Bs, bool)> {
    let wf: BoxedStrategy<Bs> = match name {
        "range" => reqgen::range_value(ent.len, 4, true).prop_map(|s| Bs(s.into_bytes())).boxed(),
        "if-range" => reqgen::if_range_value(ent),
        "if-match" | "if-none-match" => reqgen::tag_list(&ent.etag, 4),
        _ => reqgen::date_value(ent.mtime),
    };
    let numeric: BoxedStrategy<Bs> = (proptest::sample::select(NUMBERS), proptest::sample::select(NUMBERS), 0u8..5)
        .prop_map(move |(a, b, f)| {
            Bs(match (name, f) {
                ("range", 0) => format!("bytes={a}-{b}"),
                ("range", 1) => format!("bytes=-{a}"),
                ("range", 2) => format!("bytes={a}-"),
                ("range", 3) => format!("bytes={a}-{b},{b}-{a},-{a}"),
                (_, 4) => format!("{a}"),
                _ => format!("\"{a}\", W/\"{b}\""),
            }
            .into_bytes())
        })
        .boxed();
    prop_oneof![
        3 => wf.clone().prop_map(|v| (v, false)),
        3 => (wf, any::<u16>(), reqgen::header_byte(), any::<u8>()).prop_map(|(v, at, byte, op)| (Bs(edit(v.0, at, byte, op)), true)),
        2 => reqgen::arbitrary_value().prop_map(|v| (v, true)),
        1 => numeric.prop_map(|v| (v, true)),
    ]
    .boxed()
}

const NAMES: [&str; 6] = ["range", "if-range", "if-match", "if-none-match", "if-modified-since", "if-unmodified-since"];

pub fn case_strategy() -> BoxedStrategy<Case> {
    let lens = prop_oneof![
        3 => proptest::sample::select(&[0u64, 1, 10, 1 << 32, 1 << 63, u64::MAX][..]),
        2 => reqgen::len_strategy(),
    ]
    .boxed();
    reqgen::entity_strategy(lens)
        .prop_flat_map(|ent| {
            let lines: Vec<BoxedStrategy<Vec<(Bs, bool)>>> = NAMES
                .iter()
                .map(|n| {
                    let (none, one, many) = if *n == "range" { (3, 8, 1) } else { (9, 3, 1) };
                    prop_oneof![
                        none => Just(vec![]),
                        one => vec(value_for(n, &ent), 1),
                        many => vec(value_for(n, &ent), 2..=3),
                    ]
                    .boxed()
                })
                .collect();
            (Just(ent), method_strategy(), lines, any::<u32>())
        })
        .prop_map(|(ent, method, lines, order)| {
            let mut headers = Vec::new();
            let mut malformed = 0;
            for (i, vs) in lines.into_iter().enumerate() {
                for (v, bad) in vs {
                    if bad {
                        malformed += 1;
                    }
                    // mix the case of header names; http lower-cases them anyway.
                    headers.push((NAMES[i].to_string(), v));
                }
            }
            // Deterministic shuffle so that repeated lines interleave.
            let n = headers.len();
            for i in 0..n {
                let j = (crate::util::mix(order as u64, i as u64) % n as u64) as usize;
                headers.swap(i, j);
            }
            Case {
                ent,
                req: ReqSpec { method, headers, version: (order % 7) as u8 % 5 },
                malformed,
            }
        })
        .boxed()
}

/// Requests with very many range specs (a multipart answer with dozens of parts, or a long list
/// of unsatisfiable / duplicate specs), optionally with a matching If-Range.
fn many_ranges_strategy() -> BoxedStrategy<Case> {
    (
        proptest::sample::select(&[3_000u64, 100_000, 10_000_000, 1 << 40, u64::MAX][..]),
        prop_oneof![9usize..=40, 41usize..=130, 131usize..=400],
        any::<u64>(),
        0u8..4,
        any::<bool>(),
    )
        .prop_map(|(len, n, salt, mode, head)| {
            let mut v = String::from("bytes=");
            let mut s = salt;
            for i in 0..n {
                s = crate::util::splitmix64(s);
                if i > 0 {
                    v.push_str(if s & 1 == 0 { "," } else { ", " });
                }
                let a = (s >> 8) % len;
                let w = (s >> 40) % 5;
                match (mode, s % 7) {
                    (1, 0) => v.push_str(&format!("{}-", len)),      // unsatisfiable in between
                    (2, _) => v.push_str(&format!("{a}-{a}")),         // one-byte parts
                    (_, 1) => v.push_str(&format!("-{}", w + 1)),
                    _ => v.push_str(&format!("{a}-{}", a.saturating_add(w))),
                }
            }
            let etag = reqgen::quote(b"many", false);
            let mut req = ReqSpec {
                method: if head { "HEAD".into() } else { "GET".into() },
                headers: vec![("range".into(), Bs(v.into_bytes()))],
                version: (salt % 5) as u8,
            };
            if mode == 3 {
                req.headers.push(("if-range".into(), etag.clone()));
            }
            Case {
                ent: EntitySpec {
                    etag: Some(etag),
                    ..EntitySpec::simple(len)
                },
                req,
                malformed: 0,
            }
        })
        .boxed()
}

pub fn run(cx: &Cx) -> Acc {
    let mut acc = Acc::new();
    let n = cx.tier.pick(1u64, 12u64);
    acc.merge(par_proptest(cx, "random", 400_000 * n, case_strategy, |c, acc| check(c, acc)));
    acc.merge(par_proptest(cx, "many-ranges", 6_000 * n, many_ranges_strategy, |c, acc| check(c, acc)));
    // Valid multi-byte UTF-8 inside otherwise grammatical values (random bytes >= 0x80 are almost
    // never valid UTF-8): a 2-, 3- and 4-byte character and U+FFFD inserted at, and replacing, every
    // position of representative values of each of the six headers.
    let names: Vec<&str> = NAMES.to_vec();
    acc.merge(par_units(cx, "utf8-in-values", &names, true, "{e-acute, euro sign, U+FFFD, an emoji} inserted at / replacing every byte position of 7 representative values, per header, GET and HEAD, 3 entities", |cx, name, acc| {
        let bases: Vec<&str> = vec!["bytes=0-1", "bytes=0-1, 3-4", "BYTES=5-", "\"foo\"", "W/\"foo\", \"bar\"", "Sun, 06 Nov 1994 08:49:37 GMT", "*"];
        for base in bases {
            for ch in ["\u{e9}", "\u{20ac}", "\u{fffd}", "\u{1f600}"] {
                for at in 0..=base.len() {
                    for replace in [false, true] {
                        if replace && at == base.len() {
                            continue;
                        }
                        let mut v = String::new();
                        v.push_str(&base[..at]);
                        v.push_str(ch);
                        v.push_str(&base[if replace { at + 1 } else { at }..]);
                        for (k, (len, etag)) in [(1000u64, Some("\"foo\"")), (0, None), (u64::MAX, Some("W/\"foo\""))].into_iter().enumerate() {
                            let mut headers = vec![(name.to_string(), Bs(v.clone().into_bytes()))];
                            if *name == "if-range" {
                                headers.push(("range".to_string(), Bs::s("bytes=0-1")));
                            }
                            let c = Case {
                                ent: EntitySpec { etag: etag.map(|t| Bs::s(t)), mtime: crate::entity::Mtime::At(reqgen::T0, 0), ..EntitySpec::simple(len) },
                                req: ReqSpec { method: if (at + k) % 2 == 0 { "GET".into() } else { "HEAD".into() }, headers, version: 0 },
                                malformed: 1,
                            };
                            acc.run_case(cx, "utf8-in-values", &c, |acc| check(&c, acc));
                        }
                    }
                }
            }
        }
    }));
    // C06's multipart generator (decimal-width boundaries, entities of ~2^64 bytes with a range
    // covering nearly everything: the region where the multipart length overflows u64).
    acc.merge(par_proptest(
        cx,
        "multipart-and-near-overflow",
        30_000 * n,
        || {
            (crate::props::c06::case_strategy(), 0u8..4).prop_map(|(c, m)| {
                let mut req = c.req;
                if m == 0 {
                    req.method = "HEAD".into();
                }
                Case { ent: c.ent, req, malformed: 0 }
            })
        },
        |c, acc| check(c, acc),
    ));
    acc
}

pub fn replay(_cx: &Cx, _phase: &str, case: &Value, acc: &mut Acc) -> Check {
    let c: Case = serde_json::from_value(case.clone()).map_err(|e| Fail {
        sig: "replay-decode".into(),
        msg: e.to_string(),
    })?;
    check(&c, acc)
}

pub fn health(acc: &Acc) -> Vec<String> {
    let mut v = Vec::new();
    for st in ALLOWED {
        if *st == 413 {
            continue;
        }
        let l = format!("status-{st}");
        if acc.label(&l) < 50 {
            v.push(format!("label {l} seen only {} times", acc.label(&l)));
        }
    }
    v
}
