//! C03 — Range headers resolve as RFC 7233 prescribes.

use crate::drain::DrainOpts;
use crate::engine::*;
use crate::entity::{EntitySpec, Mtime, PStep, ReqSpec};
use crate::oracle::range_ref::{self, Outcome, Parsed, Spec};
use crate::reqgen;
use crate::served::{interpret, serve_case, Kind, ServeFailure};
use crate::util::{fingerprint, Bs};
use proptest::prelude::*;
use serde::{Deserialize, Serialize};
use serde_json::{json, Value};

pub const META: Meta = Meta {
    id: "C03",
    level: "exploration",
    rule: "Cases are (entity length L, Range header value) pairs: (a) every set of 1-2 specs (1-3 for L<=4) over all three spec forms with positions 0..=L+2 for L in 1..=8 [exhaustive]; (b) the boundary product L x positions from {0,1,L-1,L,L+1,2^32,2^63,2^64-2,2^64-1,2^64,10^25}, 1-2 specs exhaustive and 3 specs sampled; (c) proptest threshold sets aimed at the multipart/200 decision; (d) near-miss and garbage headers; (e) zero-padded spellings (widths up to 26) of every boundary position; (f) sets of 9 to 1500 small ranges of a large entity (the number of specs as a dimension; multipart mandatory). A third of the cases carry a strong ETag echoed in If-Range, about half another conditional header that is satisfied (If-Match *, If-None-Match other, dates): same resolution demanded. Oracle: independent u128 resolver returning the set of outcomes the statement allows. Non-trivial = grammatical header whose resolution clamps, uses a suffix, drops a spec or yields several ranges, or a non-grammatical header; distinct by fingerprint of (L, header).",
    assumptions: &[
        "harness entity honours the Entity contract (exact bytes, fused streams)",
        "lenient-but-RFC-grammatical forms (OWS before commas, empty list elements, unit in another case, last<first) may be either ignored or resolved; both are accepted; numbers of 2^64 and beyond make the header unparseable (200); zero-padded numbers that fit u64 are grammatical and must be resolved",
        "L = 0 is outside the statement (only 416 or 200 accepted, no panic)",
    ],
};

#[derive(Clone, Debug, Serialize, Deserialize)]
pub struct Case {
    pub len: u64,
    pub range: Bs,
    #[serde(default)]
    pub plan: Vec<PStep>,
    #[serde(default)]
    pub headers: Vec<(String, Bs)>,
    /// the entity has a strong ETag and the request echoes it in If-Range (the Range must then be
    /// resolved exactly as without If-Range)
    #[serde(default)]
    pub if_range: bool,
    /// another conditional header that is satisfied / cannot apply (the Range must be resolved the
    /// same): 1 If-Match: *, 2 If-None-Match: other tag, 3 If-Unmodified-Since later, 4
    /// If-Modified-Since earlier
    #[serde(default)]
    pub noop: u8,
}

fn rel(x: u128, l: u64) -> &'static str {
    let l = l as u128;
    if x > u64::MAX as u128 {
        ">u64"
    } else if x == u64::MAX as u128 {
        "=u64max"
    } else if x > l {
        ">L"
    } else if x == l {
        "=L"
    } else if x == 0 {
        "0"
    } else {
        "<L"
    }
}

fn shape(range: &[u8], l: u64) -> String {
    match range_ref::parse_range(Some(range)) {
        Parsed::Absent => "absent".into(),
        Parsed::Garbage => "garbage".into(),
        Parsed::Strict(specs) | Parsed::Tolerated(specs, _) => {
            let mut v: Vec<String> = specs
                .iter()
                .map(|s| match *s {
                    Spec::FromTo(a, b) if b < a => "inv".to_string(),
                    Spec::FromTo(a, b) => format!("ft({},{})", rel(a, l), rel(b, l)),
                    Spec::From(a) => format!("f({})", rel(a, l)),
                    Spec::Suffix(n) => format!("s({})", rel(n, l)),
                })
                .collect();
            v.dedup();
            v.truncate(4);
            v.join("+")
        }
    }
}

fn outcome_name(o: &Outcome) -> &'static str {
    match o {
        Outcome::Full => "200",
        Outcome::Unsatisfiable => "416",
        Outcome::Single(_) => "206",
        Outcome::Multi(_) => "multipart",
        Outcome::TooLarge => "413",
    }
}

pub fn check(c: &Case, acc: &mut Acc) -> Check {
    let ent = EntitySpec {
        len: c.len,
        etag: if c.if_range || c.noop == 1 || c.noop == 2 { Some(Bs::s("\"c03\"")) } else { None },
        mtime: if c.noop >= 3 { Mtime::At(reqgen::T0, 0) } else { Mtime::None },
        headers: c.headers.clone(),
        plan: if c.plan.is_empty() { vec![PStep::Rest] } else { c.plan.clone() },
        faults: vec![],
        tail: vec![],
        segments: 0,
        counting_hint: false,
        unfused_errors: false,
    };
    let mut req = ReqSpec::get().with("range", &c.range.0);
    if c.if_range {
        req = req.with("if-range", "\"c03\"");
    }
    match c.noop {
        1 => req = req.with("if-match", "*"),
        2 => req = req.with("if-none-match", "\"zzz\", W/\"yyy\""),
        3 => req = req.with("if-unmodified-since", reqgen::http_date(reqgen::T0 + 86_400)),
        4 => req = req.with("if-modified-since", reqgen::http_date(reqgen::T0 - 86_400)),
        _ => {}
    }
    // with a matching If-Range the parts do not repeat the entity's headers
    let hdr_bytes: usize = if c.if_range { 0 } else { c.headers.iter().map(|(k, v)| k.len() + v.0.len() + 4).sum() };
    let exp = range_ref::expect(Some(&c.range.0), c.len, hdr_bytes);
    let sh = shape(&c.range.0, c.len);
    let opts = DrainOpts {
        max_bytes: if c.len > 1 << 16 { 8192 } else { 1 << 20 },
        extra_polls: 0,
        ..Default::default()
    };
    let served = match serve_case(&ent, &req, opts) {
        Ok(s) => s,
        Err(ServeFailure::BadRequestSpec) => {
            acc.count("invalid-header-value-skipped");
            return Ok(());
        }
        Err(ServeFailure::Panic(m)) => {
            return fail(
                format!("serve-panic:{}:{}", exp.class, sh),
                format!("serve() panicked on L={} Range={:?}: {m}", c.len, c.range.show()),
            )
        }
    };
    if let Some(m) = served.trace.panicked() {
        return fail(
            format!("drain-panic:{}:{}", exp.class, sh),
            format!("draining the body panicked on L={} Range={:?}: {m}", c.len, c.range.show()),
        );
    }
    let view = interpret(&served, &ent, false);
    let obs = match &view.kind {
        Kind::Full => Outcome::Full,
        Kind::Single { first, last, .. } => Outcome::Single((*first, *last)),
        Kind::Multi { ranges: Some(rs), truncated: true, .. } => {
            // Only a prefix of the parts was drained (astronomically large part): prefix comparison.
            let ok = exp.allowed.iter().any(|o| matches!(o, Outcome::Multi(want) if want.len() >= rs.len() && want[..rs.len()] == rs[..]));
            if !ok {
                return fail(
                    format!("{}:{}->multipart-prefix", exp.class, sh),
                    format!("L={} Range={:?}: multipart parts begin {:?}, the statement allows {:?}", c.len, c.range.show(), rs, exp.allowed),
                );
            }
            match exp.allowed.iter().find(|o| matches!(o, Outcome::Multi(_))) {
                Some(o) => o.clone(),
                None => return Ok(()),
            }
        }
        Kind::Multi { ranges: Some(rs), .. } => Outcome::Multi(rs.clone()),
        Kind::Multi { ranges: None, truncated: true, .. } => {
            acc.count("multipart-uninterpretable(see C06)");
            return Ok(());
        }
        Kind::Multi { ranges: None, .. } => {
            // drained completely and still not a multipart/byteranges document a client could read
            let why = view.first_issue(&["multipart:", "fmt:"]).map(|i| i.msg.clone()).unwrap_or_default();
            return fail(format!("{sh}->multipart-unreadable"), format!("L={} Range={:?}{}: the multipart body cannot be parsed: {why}", c.len, crate::util::show_bytes(&c.range.0), if c.if_range { " with a matching If-Range" } else { "" }));
        }
        Kind::Unsat { .. } => Outcome::Unsatisfiable,
        Kind::Other if view.status == 413 => Outcome::TooLarge,
        Kind::Other => {
            if view.status == 206 {
                // a 206 whose Content-Range could not be read: C03 names the range it must carry.
                if let Some(i) = view.first_issue(&["fmt:"]) {
                    return fail(format!("{}:{}:{}", i.sig, exp.class, sh), format!("L={} Range={:?}: {}", c.len, c.range.show(), i.msg));
                }
            }
            return fail(
                format!("status-{}:{}:{}", view.status, exp.class, sh),
                format!("L={} Range={:?}: unexpected status {}", c.len, c.range.show(), view.status),
            );
        }
    };
    if !exp.allowed.contains(&obs) {
        return fail(
            format!("{}:{}->{}", exp.class, sh, outcome_name(&obs)),
            format!(
                "L={} Range={:?} ({}): got {:?}, the statement allows {:?}",
                c.len,
                c.range.show(),
                exp.class,
                obs,
                exp.allowed
            ),
        );
    }
    // "exactly that range" / "complete 200" / "416 with Content-Range: bytes */L".
    if let Some(i) = view.first_issue(&["bytes:", "fmt:416", "fmt:200-with-content-range", "fmt:content-range", "fmt:part-"]) {
        return fail(
            format!("{}:{}:{}", i.sig, exp.class, sh),
            format!("L={} Range={:?}: {}", c.len, c.range.show(), i.msg),
        );
    }
    // Classification.
    if let Some(w) = exp.tolerated {
        acc.count(&format!("tolerated:{w}"));
    }
    let resolved_nontrivial = match range_ref::parse_range(Some(&c.range.0)) {
        Parsed::Strict(specs) => {
            specs.len() > 1
                || specs.iter().any(|s| match *s {
                    Spec::Suffix(_) => true,
                    Spec::From(f) => f >= c.len as u128,
                    Spec::FromTo(f, t) => t >= c.len as u128 || f >= c.len as u128 || t < f,
                })
        }
        Parsed::Garbage | Parsed::Tolerated(..) => true,
        Parsed::Absent => false,
    };
    let label = format!("{}->{}", exp.class, outcome_name(&obs));
    acc.note(&label, resolved_nontrivial, fingerprint(&(c.len, &c.range)), || {
        json!({"len": c.len, "range": c.range.show(), "observed": format!("{obs:?}"), "allowed": format!("{:?}", exp.allowed)})
    });
    Ok(())
}

fn all_specs(l: u64, positions: &[u128]) -> Vec<String> {
    let _ = l;
    let mut v = Vec::new();
    for &a in positions {
        for &b in positions {
            v.push(format!("{a}-{b}"));
        }
        v.push(format!("{a}-"));
        v.push(format!("-{a}"));
    }
    v
}

fn run_sets(cx: &Cx, phase: &str, l: u64, specs: &[String], max_n: usize, acc: &mut Acc) {
    let one = |range: String, acc: &mut Acc| {
        let c = Case {
            len: l,
            // a third of the enumerated sets also with a matching If-Range
            if_range: range.len() % 3 == 0,
            noop: (range.len() % 5) as u8 * (range.len() % 2) as u8,
            range: Bs(range.into_bytes()),
            plan: vec![],
            headers: vec![],
        };
        acc.run_case(cx, phase, &c, |acc| check(&c, acc));
    };
    for a in specs {
        one(format!("bytes={a}"), acc);
    }
    if max_n >= 2 {
        for a in specs {
            for b in specs {
                one(format!("bytes={a},{b}"), acc);
                one(format!("bytes={a}, {b}"), acc);
            }
        }
    }
    if max_n >= 3 {
        for (i, a) in specs.iter().enumerate() {
            for (j, b) in specs.iter().enumerate() {
                for (k, c) in specs.iter().enumerate() {
                    let sep1 = if (i + j) % 2 == 0 { "," } else { ", " };
                    let sep2 = if (j + k) % 2 == 0 { ", " } else { "," };
                    one(format!("bytes={a}{sep1}{b}{sep2}{c}"), acc);
                }
            }
        }
    }
}

const BOUNDARY_LENS: &[u64] = &[1, 2, 10, 1 << 32, (1 << 63) - 1, 1 << 63, u64::MAX - 1, u64::MAX];

fn boundary_positions(l: u64) -> Vec<u128> {
    let l = l as u128;
    let mut p = vec![
        0u128,
        1,
        l - 1,
        l,
        l + 1,
        1 << 32,
        1 << 63,
        u64::MAX as u128 - 1,
        u64::MAX as u128,
        1 << 64,
        10u128.pow(25),
    ];
    p.sort();
    p.dedup();
    p
}

pub const NEAR_MISSES: &[&str] = &[
    "bytes", "bytes=", "bytes=-", "bytes=--1", "bytes=1--2", "bytes=1-2-3", "bytes=a-b", "bytes=0x1-0x2", "bytes=1e1-",
    "bytes=+1-+2", "bytes=-+3", "bytes=+0-", "bytes=1-+2", "bytes= 0-1", "bytes=0-1 ", "bytes=0 -1", "bytes=0- 1",
    "bytes=0-1;2-3", "bytes=0-1,", "bytes=,0-1", "bytes=0-1,,2-3", "bytes=0-1 ,2-3", "bytes=0-1\t,\t2-3", "Bytes=0-1",
    "BYTES=0-1", "bytes =0-1", " bytes=0-1", "bytes:0-1", "items=0-1", "byte=0-1", "bytess=0-1", "none", "0-1", "=0-1",
    "bytes=0-1,a", "bytes=0-1,2", "bytes=0-1,-", "bytes=1.5-2", "bytes=١-٢", "bytes=0-\u{ff11}", "bytes=00000000000000000000000-1",
    "bytes=0-000000000000000000000009", "bytes=18446744073709551616-", "bytes=-18446744073709551616",
    "bytes=0-99999999999999999999999999", "bytes=-0", "bytes=-00", "bytes=0-0,-0", "bytes=-0,-0", "bytes=5-3", "bytes=5-3,0-1",
    "bytes=0-0,5-3", "bytes=\u{2212}1", "bytes=1\u{2013}2", "bytes=0-1\u{0}", "bytes=*", "bytes=0-*", "bytes=*/10",
];

fn near_miss_strategy() -> BoxedStrategy<Case> {
    // A grammatical value with one random edit, or a fixed near-miss, or arbitrary bytes.
    let edited = (reqgen::small_len_strategy(), 1usize..4).prop_flat_map(|(l, n)| {
        (Just(l), reqgen::range_value(l.max(1), n, true), any::<u16>(), reqgen::header_byte(), 0u8..4)
    })
    .prop_map(|(l, v, at, byte, op)| {
        let mut b = v.into_bytes();
        let i = (at as usize * (b.len() + 1)) >> 16;
        match op {
            0 if i < b.len() => b[i] = byte,
            1 => b.insert(i.min(b.len()), byte),
            2 if i < b.len() => {
                b.remove(i);
            }
            _ => {
                if !b.is_empty() {
                    let n = b.len();
                    let j = i.min(n - 1);
                    b.swap(j, n - 1 - j);
                }
            }
        }
        Case {
            len: l.max(1),
            if_range: b.len() % 4 == 0,
            noop: 0,
            range: Bs(b),
            plan: vec![],
            headers: vec![],
        }
    });
    let fixed = (reqgen::small_len_strategy(), proptest::sample::select(NEAR_MISSES)).prop_map(|(l, s)| Case {
        len: l.max(1),
        range: Bs(s.as_bytes().to_vec()),
        plan: vec![],
        headers: vec![],
        if_range: l % 3 == 0,
        noop: (l % 5) as u8,
    });
    let arb = (reqgen::small_len_strategy(), reqgen::arbitrary_value()).prop_map(|(l, v)| Case {
        len: l.max(1),
        range: v,
        plan: vec![],
        headers: vec![],
        if_range: false,
        noop: 0,
    });
    prop_oneof![5 => edited, 2 => fixed, 2 => arb].boxed()
}

/// Range sets constructed around the two thresholds of the statement.
fn threshold_strategy() -> BoxedStrategy<Case> {
    (200u64..100_000, 2usize..=8, 0u8..6, any::<u64>(), reqgen::plan_strategy(), reqgen::entity_headers_strategy())
        .prop_map(|(l, n, target, salt, plan, headers)| {
            // target total T = sum(len): chosen relative to the thresholds.
            let n64 = n as u64;
            let half = l / 2; // 2*(T + 80n) < L  <=>  T + 80n < L/2 (roughly)
            let t_total: u64 = match target {
                0 => half.saturating_sub(80 * n64 + 1),     // just below "must multipart"
                1 => half.saturating_sub(80 * n64),         // at it
                2 => (half + 1).saturating_sub(80 * n64),   // just above
                3 => l.saturating_sub(80 * n64 + 1),        // just below est_len == L (implementation's edge)
                4 => l.saturating_sub(1),                   // just below "must be 200"
                _ => l,                                     // at "must be 200"
            }
            .max(n64);
            // Split t_total into n parts, pseudo-randomly.
            let mut lens = vec![t_total / n64; n];
            lens[0] += t_total % n64;
            let mut s = salt;
            for i in 0..n {
                s = crate::util::splitmix64(s);
                let j = (s % n64) as usize;
                if lens[i] > 1 {
                    let d = (s >> 8) % lens[i];
                    lens[i] -= d;
                    lens[j] += d;
                }
            }
            let mut v = String::from("bytes=");
            for (i, ln) in lens.iter().enumerate() {
                s = crate::util::splitmix64(s);
                let ln = (*ln).clamp(1, l);
                let start = s % (l - ln + 1);
                if i > 0 {
                    v.push_str(if s & (1 << 40) == 0 { "," } else { ", " });
                }
                v.push_str(&format!("{}-{}", start, start + ln - 1));
            }
            Case {
                len: l,
                if_range: v.len() % 3 == 0,
                noop: (v.len() % 7) as u8 % 5,
                range: Bs(v.into_bytes()),
                plan,
                headers,
            }
        })
        .boxed()
}

fn random_strategy() -> BoxedStrategy<Case> {
    (reqgen::len_strategy(), 1usize..=5)
        .prop_flat_map(|(l, n)| {
            let v = if l >= 400 {
                prop_oneof![3 => reqgen::range_value(l, n, true), 1 => reqgen::multipart_range_value(l, 8)].boxed()
            } else {
                reqgen::range_value(l, n, true)
            };
            (Just(l), v, reqgen::plan_strategy(), reqgen::entity_headers_strategy())
        })
        .prop_map(|(l, v, plan, headers)| Case {
            len: l,
            if_range: v.len() % 3 == 0,
            noop: (v.len() % 7) as u8 % 5,
            range: Bs(v.into_bytes()),
            plan,
            headers,
        })
        .boxed()
}

pub fn run(cx: &Cx) -> Acc {
    let mut acc = Acc::new();
    // (a) exhaustive small.
    let max3 = cx.tier.pick(4u64, 6u64);
    let units: Vec<u64> = (1..=8).collect();
    acc.merge(par_units(cx, "exhaustive-small", &units, true, "L in 1..=8, positions 0..=L+2, all sets of 1-2 specs (3 for small L), both separators", |cx, &l, acc| {
        let pos: Vec<u128> = (0..=(l as u128 + 2)).collect();
        let specs = all_specs(l, &pos);
        run_sets(cx, "exhaustive-small", l, &specs, if l <= max3 { 3 } else { 2 }, acc);
    }));
    // (b) boundary product.
    acc.merge(par_units(cx, "boundary-product", BOUNDARY_LENS, true, "L x positions from the boundary set, all sets of 1-2 specs", |cx, &l, acc| {
        let specs = all_specs(l, &boundary_positions(l));
        run_sets(cx, "boundary-product", l, &specs, 2, acc);
    }));
    // (b'') zero-padded spellings of every boundary position, widths 2..=26, each spec form.
    acc.merge(par_units(cx, "zero-padded", BOUNDARY_LENS, true, "L x boundary positions < 2^64 spelled with leading zeros up to 26 characters wide, in first-, last- and suffix position", |cx, &l, acc| {
        for &p in boundary_positions(l).iter().filter(|p| **p <= u64::MAX as u128) {
            for w in [2usize, 19, 20, 21, 22, 26] {
                for r in [format!("bytes={p:0w$}-"), format!("bytes=0-{p:0w$}"), format!("bytes=-{p:0w$}"), format!("bytes=0-0,{p:0w$}-{p:0w$}")] {
                    let c = Case { len: l, range: Bs(r.into_bytes()), plan: vec![], headers: vec![], if_range: false, noop: 0 };
                    acc.run_case(cx, "zero-padded", &c, |acc| check(&c, acc));
                }
            }
        }
    }));
    // (b') 3 specs sampled, (c), (d), random.
    let n = cx.tier.pick(1u64, 20u64);
    acc.merge(par_proptest(cx, "boundary-3", 30_000 * n, || {
        (proptest::sample::select(BOUNDARY_LENS), any::<[u16; 3]>(), any::<u8>()).prop_map(|(l, sel, seps)| {
            let specs = all_specs(l, &boundary_positions(l));
            let pick = |s: u16| specs[(s as usize * specs.len()) >> 16].clone();
            let sep = |b: bool| if b { ", " } else { "," };
            Case {
                len: l,
                range: Bs(format!("bytes={}{}{}{}{}", pick(sel[0]), sep(seps & 1 == 0), pick(sel[1]), sep(seps & 2 == 0), pick(sel[2])).into_bytes()),
                plan: vec![],
                headers: vec![],
                if_range: false,
                noop: 0,
            }
        })
    }, |c, acc| check(c, acc)));
    acc.merge(par_proptest(cx, "threshold", 50_000 * n, threshold_strategy, |c, acc| check(c, acc)));
    acc.merge(par_proptest(cx, "near-miss", 40_000 * n, near_miss_strategy, |c, acc| check(c, acc)));
    acc.merge(par_proptest(cx, "random", 60_000 * n, random_strategy, |c, acc| check(c, acc)));
    // (e) the *number* of specs: hundreds to over a thousand small ranges of a large entity (far
    // below the half-entity threshold, so a multipart answer of exactly those ranges is mandatory).
    acc.merge(par_proptest(cx, "many-specs", 1_500 * n, many_specs_strategy, |c, acc| check(c, acc)));
    acc
}

fn many_specs_strategy() -> BoxedStrategy<Case> {
    (
        proptest::sample::select(&[400_000u64, 10_000_000, 1 << 40, u64::MAX][..]),
        prop_oneof![2 => 9usize..=64, 2 => 65usize..=199, 3 => 200usize..=260, 2 => 261usize..=700, 1 => 701usize..=1500],
        any::<u64>(),
        0u8..3,
    )
        .prop_map(|(len, n, salt, mode)| {
            let mut v = String::from("bytes=");
            let mut s = salt;
            for i in 0..n {
                s = crate::util::splitmix64(s);
                if i > 0 {
                    v.push_str(if s & 1 == 0 { "," } else { ", " });
                }
                let a = (s >> 8) % len;
                let w = (s >> 40) % 3;
                match (mode, s % 9) {
                    (1, 0) => v.push_str(&format!("{}-", len)), // dropped in between
                    (2, _) => v.push_str(&format!("{a}-{a}")),  // one-byte parts
                    (_, 1) => v.push_str(&format!("-{}", w + 1)),
                    _ => v.push_str(&format!("{a}-{}", a.saturating_add(w))),
                }
            }
            Case { len, range: Bs(v.into_bytes()), plan: vec![], headers: vec![], if_range: false, noop: 0 }
        })
        .boxed()
}

pub fn replay(_cx: &Cx, _phase: &str, case: &Value, acc: &mut Acc) -> Check {
    let c: Case = serde_json::from_value(case.clone()).map_err(|e| Fail {
        sig: "replay-decode".into(),
        msg: e.to_string(),
    })?;
    check(&c, acc)
}

pub fn health(acc: &Acc) -> Vec<String> {
    let mut v = Vec::new();
    for l in ["strict->multipart", "strict->206", "strict->416", "strict->200", "garbage->200"] {
        if acc.label(l) < 100 {
            v.push(format!("label {l} seen only {} times", acc.label(l)));
        }
    }
    v
}
