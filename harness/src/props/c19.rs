//! C19 — FsDir::get never leaves the base directory and opens exactly the right file.

use crate::engine::*;
use crate::ensure;
use crate::props::c18::Scratch;
use crate::util::fingerprint;
use http_serve::dir::FsDir;
use serde::{Deserialize, Serialize};
use serde_json::{json, Value};
use std::os::unix::fs::MetadataExt;
use std::path::Path;
use std::sync::Arc;

pub const META: Meta = Meta {
    id: "C19",
    level: "exploration",
    rule: "Exhaustive: every path of 1-4 segments (thorough: 1-5) over {a, sub, .., ., ..., ..a, a.., empty, secret, link} joined by '/', with and without a leading and a trailing slash, x Accept-Encoding {absent, gzip, identity, gzip;q=0, *} x auto_gzip on/off, against a generated tree (plain files incl. dot-heavy names, a.gz sibling, b + b.gz/ directory, c.gz without c, sub/ with a, a.gz and .gz, sub.gz, a symlink to a secret file outside the base, .gz siblings that are symlinks to a character device, to a directory, and dangling); NUL injected at every byte position of every path; path length: './' repeated in front of 15 existing and missing names for every total length 4070..=4110 (around PATH_MAX), 8192 and 70000 bytes, and segments of 254-257 bytes (for paths over 1000 bytes the oracle is openat relative to the base instead of std::fs on the joined path). Oracle: reference path validator written from the statement + std::fs on the same tree (device/inode identity or same io::ErrorKind), reference gzip negotiation. Non-trivial = accepted path that opens a file with a dot-only-looking segment or a .gz decision involved, or a rejected path; distinct by (path, Accept-Encoding, auto_gzip).",
    assumptions: &[
        "what the empty path names is ambiguous (openat(\"\") vs. the directory itself): it is checked for containment only",
        "symlinks are followed, as documented; the symlink in the tree is the only way to the file outside the base",
        "sandbox filesystem, running as root (permission errors not explored)",
    ],
};

#[derive(Clone, Debug, Serialize, Deserialize)]
pub struct Case {
    pub path: String,
    pub accept_encoding: Option<String>,
    pub auto_gzip: bool,
}

pub struct Tree {
    pub scratch: Scratch,
    pub base: String,
    pub secret: (u64, u64),
}

pub fn make_tree(tag: &str) -> Tree {
    let scratch = Scratch::new(tag);
    let root = scratch.dir.clone();
    let base = root.join("base");
    std::fs::create_dir_all(base.join("sub")).unwrap();
    std::fs::create_dir_all(base.join("b.gz")).unwrap();
    let w = |p: &Path, s: &str| std::fs::write(p, s).unwrap();
    w(&root.join("secret"), "TOP SECRET");
    for (n, s) in [
        ("a", "plain a"),
        ("...", "three dots"),
        ("....", "four dots"),
        ("a....", "a and four dots"),
        ("......", "six dots"),
        ("..a", "dot dot a"),
        ("a..", "a dot dot"),
        ("a.gz", "gz of a"),
        ("b", "plain b"),
        ("c.gz", "gz without plain"),
        ("sub/a", "sub a"),
        ("sub/a.gz", "gz of sub a"),
        ("sub/.gz", "dot gz in sub"),
        ("sub.gz", "gz of sub"),
        ("....gz", "gz of three dots"),
    ] {
        w(&base.join(n), s);
    }
    std::os::unix::fs::symlink("../secret", base.join("link")).unwrap();
    // .gz siblings that are neither regular files nor directories (a symlink to a character
    // device): "exists and is not a directory", so they are substituted.
    w(&base.join("d"), "plain d");
    std::os::unix::fs::symlink("/dev/null", base.join("d.gz")).unwrap();
    std::os::unix::fs::symlink("/dev/null", base.join("e.gz")).unwrap();
    // a .gz sibling that is a symlink to a directory, and one that dangles
    w(&base.join("f"), "plain f");
    std::os::unix::fs::symlink("sub", base.join("f.gz")).unwrap();
    w(&base.join("g"), "plain g");
    std::os::unix::fs::symlink("no-such-target", base.join("g.gz")).unwrap();
    let md = std::fs::metadata(root.join("secret")).unwrap();
    Tree {
        base: base.to_str().unwrap().to_string(),
        secret: (md.dev(), md.ino()),
        scratch,
    }
}

/// What the operating system says about `rel` relative to the directory `base` (openat: the base's
/// own path length does not count against PATH_MAX). Used for very long paths, where
/// `std::fs::File::open(base + "/" + rel)` fails for a reason the statement does not name.
fn os_open_relative(base: &str, rel: &str) -> std::io::Result<std::fs::Metadata> {
    use std::os::fd::FromRawFd;
    let cbase = std::ffi::CString::new(base).expect("base");
    let crel = std::ffi::CString::new(rel).map_err(|_| std::io::Error::from(std::io::ErrorKind::InvalidInput))?;
    unsafe {
        let dfd = libc::open(cbase.as_ptr(), libc::O_RDONLY | libc::O_DIRECTORY | libc::O_CLOEXEC);
        if dfd < 0 {
            return Err(std::io::Error::last_os_error());
        }
        let fd = libc::openat(dfd, crel.as_ptr(), libc::O_RDONLY | libc::O_CLOEXEC);
        let err = std::io::Error::last_os_error();
        libc::close(dfd);
        if fd < 0 {
            return Err(err);
        }
        std::fs::File::from_raw_fd(fd).metadata()
    }
}

fn rejected_by_statement(p: &str) -> bool {
    p.contains('\0') || p.starts_with('/') || p.split('/').any(|s| s == "..")
}

fn prefers_gzip(ae: &Option<String>) -> bool {
    match crate::props::c16::reference(ae.as_ref().map(|s| s.as_bytes())) {
        Some(v) if v.len() == 1 => v[0],
        _ => false,
    }
}

pub fn check(rt: &tokio::runtime::Runtime, tree: &Tree, dirs: &(Arc<FsDir>, Arc<FsDir>), c: &Case, acc: &mut Acc) -> Check {
    let mut hdrs = http::HeaderMap::new();
    if let Some(ae) = &c.accept_encoding {
        hdrs.insert("accept-encoding", http::HeaderValue::from_str(ae).unwrap());
    }
    let dir = if c.auto_gzip { dirs.0.clone() } else { dirs.1.clone() };
    let path = c.path.clone();
    let got = match crate::panics::guard(|| rt.block_on(dir.get(&path, &hdrs))) {
        Ok(r) => r,
        Err(m) => return fail("panic", format!("FsDir::get panicked: {m}; case {c:?}")),
    };
    let what = format!("case {}", serde_json::to_string(c).unwrap_or_default());
    let through_link = c.path.split('/').any(|s| s == "link");
    if rejected_by_statement(&c.path) {
        ensure!(
            got.is_err(),
            format!("accepted-invalid:{}", if c.path.contains('\0') { "nul" } else if c.path.starts_with('/') { "absolute" } else { "dotdot" }),
            "a path the statement rejects was opened; {what}"
        );
        acc.note("rejected", true, fingerprint(c), || json!({"case": c}));
        return Ok(());
    }
    // Containment, whatever else happens.
    if let Ok(node) = &got {
        let id = (node.metadata().dev(), node.metadata().ino());
        ensure!(id != tree.secret || through_link, "escaped-base", "the file outside the base directory was opened; {what}");
    }
    if c.path.is_empty() {
        acc.note("empty-path", false, fingerprint(c), || json!({"case": c}));
        return Ok(());
    }
    let full = format!("{}/{}", tree.base, c.path);
    let long = c.path.len() > 1000;
    let gz = c.auto_gzip && prefers_gzip(&c.accept_encoding);
    let mut expect_gz_node: Option<(u64, u64)> = None;
    let mut expect_err: Option<std::io::ErrorKind> = None;
    if gz {
        let sibling = if long { os_open_relative(&tree.base, &format!("{}.gz", c.path)) } else { std::fs::metadata(format!("{full}.gz")) };
        match sibling {
            Ok(md) if !md.is_dir() => expect_gz_node = Some((md.dev(), md.ino())),
            Ok(_) => {}
            Err(e) if e.kind() == std::io::ErrorKind::NotFound => {}
            Err(e) => expect_err = Some(e.kind()),
        }
    }
    let describe = |r: &Result<http_serve::dir::Node, std::io::Error>| match r {
        Ok(n) => format!("Ok(dev {} ino {} encoding {:?})", n.metadata().dev(), n.metadata().ino(), n.encoding()),
        Err(e) => format!("Err({:?})", e.kind()),
    };
    let label;
    if let Some(id) = expect_gz_node {
        match &got {
            Ok(n) => {
                ensure!(
                    (n.metadata().dev(), n.metadata().ino()) == id && n.encoding() == Some("gzip"),
                    "gz-sibling-not-used",
                    "the .gz sibling exists, is not a directory and gzip is preferred, but got {}; {what}",
                    describe(&got)
                );
            }
            Err(_) => return fail("gz-sibling-not-used", format!("the .gz sibling exists but get failed: {}; {what}", describe(&got))),
        }
        label = "gz-sibling";
    } else if let Some(k) = expect_err {
        ensure!(matches!(&got, Err(e) if e.kind() == k), "gz-lookup-error-kind", "looking up the .gz sibling fails with {:?}, got {}; {what}", k, describe(&got));
        label = "gz-lookup-error";
    } else {
        let plain = if long { os_open_relative(&tree.base, &c.path) } else { std::fs::File::open(&full).and_then(|f| f.metadata()) };
        match plain {
            Ok(md) => match &got {
                Ok(n) => {
                    ensure!(
                        (n.metadata().dev(), n.metadata().ino()) == (md.dev(), md.ino()),
                        if gz { "wrong-file-after-gz-fallback" } else { "wrong-file" },
                        "std::fs opens dev {} ino {}, got {}; {what}",
                        md.dev(),
                        md.ino(),
                        describe(&got)
                    );
                    ensure!(n.encoding().is_none(), "encoding-claimed-without-substitution", "encoding() is {:?} although the plain file was opened; {what}", n.encoding());
                }
                Err(_) => return fail("valid-path-refused", format!("opening the path succeeds but get returned {}; {what}", describe(&got))),
            },
            Err(e) => {
                ensure!(matches!(&got, Err(g) if g.kind() == e.kind()), "error-kind-differs", "std::fs fails with {:?}, got {}; {what}", e.kind(), describe(&got));
            }
        }
        label = if gz { "plain-after-gz-lookup" } else { "plain" };
    }
    if let Ok(n) = &got {
        let mut h = http::HeaderMap::new();
        n.add_encoding_headers(&mut h);
        let ce = h.get("content-encoding").map(|v| v.as_bytes().to_vec());
        ensure!(
            ce.as_deref() == n.encoding().map(|e| e.as_bytes()) && n.encoding().map_or(true, |e| e == "gzip"),
            "encoding-header-mismatch",
            "add_encoding_headers set Content-Encoding {:?}, encoding() is {:?}; {what}",
            ce.map(|v| crate::util::show_bytes(&v)),
            n.encoding()
        );
        let vary = h.get("vary").map(|v| v.as_bytes().to_ascii_lowercase());
        ensure!(
            (vary.as_deref() == Some(b"accept-encoding".as_slice())) == c.auto_gzip && vary.is_some() == c.auto_gzip && n.encoding_varies() == c.auto_gzip,
            "vary-mismatch",
            "Vary is {:?}, encoding_varies() {}, auto_gzip {}; {what}",
            vary.map(|v| crate::util::show_bytes(&v)),
            n.encoding_varies(),
            c.auto_gzip
        );
    }
    let dotty = c.path.split('/').any(|s| s.contains('.') && s != "." && s != "..");
    let opened_file = matches!(&got, Ok(n) if n.metadata().is_file());
    acc.note(label, opened_file && (dotty || gz), fingerprint(c), || json!({"case": c, "result": describe(&got)}));
    Ok(())
}

pub const SEGMENTS: &[&str] = &["a", "sub", "..", ".", "...", "..a", "a..", "", "secret", "link", "....", "a....", "......"];
pub const AES: &[Option<&str>] = &[None, Some("gzip"), Some("identity"), Some("gzip;q=0"), Some("*")];

fn paths_from(first: &str, max_segments: usize) -> Vec<String> {
    let mut out = Vec::new();
    let mut frontier = vec![first.to_string()];
    out.push(first.to_string());
    for _ in 1..max_segments {
        let mut nf = Vec::new();
        for p in &frontier {
            for s in SEGMENTS {
                nf.push(format!("{p}/{s}"));
            }
        }
        out.extend(nf.iter().cloned());
        frontier = nf;
    }
    out
}

pub fn run(cx: &Cx) -> Acc {
    let mut acc = Acc::new();
    let thorough = cx.tier == Tier::Thorough;
    let units: Vec<&str> = SEGMENTS.to_vec();
    acc.merge(par_units(cx, "paths", &units, true, "every path of 1-4 segments starting with this segment x leading/trailing slash x 5 Accept-Encoding values x auto_gzip on/off (+ NUL injection)", |cx, first, acc| {
        let tree = make_tree(&format!("c19-{}", SEGMENTS.iter().position(|s| s == first).unwrap()));
        let rt = tokio::runtime::Builder::new_multi_thread().worker_threads(1).max_blocking_threads(2).build().expect("runtime");
        let dirs = (FsDir::builder().auto_gzip(true).for_path(&tree.base).unwrap(), FsDir::builder().auto_gzip(false).for_path(&tree.base).unwrap());
        let mut k = 0usize;
        for p in paths_from(first, if thorough { 5 } else { 4 }) {
            for lead in ["", "/"] {
                for trail in ["", "/"] {
                    let path = format!("{lead}{p}{trail}");
                    for ae in AES {
                        for auto_gzip in [true, false] {
                            let c = Case {
                                path: path.clone(),
                                accept_encoding: ae.map(|s| s.to_string()),
                                auto_gzip,
                            };
                            acc.run_case(cx, "paths", &c, |acc| check(&rt, &tree, &dirs, &c, acc));
                        }
                    }
                    // NUL at every byte position (thorough) / at one rotating position (quick).
                    let n = path.len();
                    // quick tier: a pseudo-random third of the paths, one pseudo-random position each
                    // (not k % 4: that is aligned with the 4 leading/trailing-slash variants).
                    let h = crate::util::mix(k as u64, 0x5eed);
                    let _ = h;
                    let positions: Vec<usize> = (0..=n).collect();
                    k += 1;
                    {
                        for at in positions {
                            if !path.is_char_boundary(at) {
                                continue;
                            }
                            let mut q = path.clone();
                            q.insert(at, '\0');
                            let c = Case {
                                path: q,
                                accept_encoding: if at % 2 == 0 { Some("gzip".into()) } else { None },
                                auto_gzip: at % 3 != 0,
                            };
                            acc.run_case(cx, "paths", &c, |acc| check(&rt, &tree, &dirs, &c, acc));
                        }
                    }
                }
            }
        }
        rt.shutdown_background();
    }));
    // Path *length*: "./" repeated up to PATH_MAX and beyond in front of existing and missing names,
    // and single segments around NAME_MAX. The operating system's own answer (openat relative to
    // the base) is the oracle; a path that is too long must fail the way opening it fails.
    let tails: Vec<&str> = vec!["a", "ab", "aXXXXXX", "sub/a", "sub/aXXXXXXX", "..a", "..aXXXXX", "a..", "...", "c", "cXXXX", "missing", "b", "bXXXXXX", "sub/./a"];
    acc.merge(par_units(cx, "long-paths", &tails, true, "'./' x k + tail for every total length 4070..=4110 (and k = 100, 1000), 2 Accept-Encoding values x auto_gzip; segments of 254-257 bytes", |cx, tail, acc| {
        let tree = make_tree(&format!("c19l-{}", fingerprint(tail)));
        let rt = tokio::runtime::Builder::new_multi_thread().worker_threads(1).max_blocking_threads(2).build().expect("runtime");
        let dirs = (FsDir::builder().auto_gzip(true).for_path(&tree.base).unwrap(), FsDir::builder().auto_gzip(false).for_path(&tree.base).unwrap());
        let mut paths: Vec<String> = Vec::new();
        for total in (4070usize..=4110).chain([200 + tail.len(), 2000 + tail.len(), 8192, 70_000]) {
            if total < tail.len() {
                continue;
            }
            let pad = total - tail.len();
            // "./" pairs, plus one "/" more when the padding is odd ("a//b" names what "a/b" names)
            let mut p = "./".repeat(pad / 2);
            if pad % 2 == 1 {
                p.push('/');
                if p.starts_with('/') {
                    continue;
                }
            }
            p.push_str(tail);
            paths.push(p);
        }
        for n in [254usize, 255, 256, 257] {
            paths.push(format!("{}{}", "n".repeat(n - tail.len().min(n)), &tail[..tail.len().min(n)]));
            paths.push(format!("sub/{}", "n".repeat(n)));
        }
        for path in paths {
            for ae in [None, Some("gzip")] {
                for auto_gzip in [true, false] {
                    let c = Case { path: path.clone(), accept_encoding: ae.map(|s| s.to_string()), auto_gzip };
                    acc.run_case(cx, "long-paths", &c, |acc| check(&rt, &tree, &dirs, &c, acc));
                }
            }
        }
        rt.shutdown_background();
    }));
    // Named files of the tree, directly (gz decisions on every file).
    let named: Vec<&str> = vec!["a", "b", "c", "c.gz", "a.gz", "sub", "sub/a", "sub/", "sub/.gz", "sub.gz", "...", "..a", "a..", "link", "b.gz", "b.gz/", "missing", "a/x", "sub/missing", "....gz", "....", "a....", "......", "sub/....", "a.b....", "v1......", "sub/./a", "./a", "sub//a", "d", "e", "d.gz", "f", "g", "a.gz.gz", "sub/a.gz"];
    acc.merge(par_units(cx, "named", &named, true, "every named node of the tree x Accept-Encoding x auto_gzip", |cx, p, acc| {
        let tree = make_tree(&format!("c19n-{}", fingerprint(p)));
        let rt = tokio::runtime::Builder::new_multi_thread().worker_threads(1).max_blocking_threads(2).build().expect("runtime");
        let dirs = (FsDir::builder().auto_gzip(true).for_path(&tree.base).unwrap(), FsDir::builder().auto_gzip(false).for_path(&tree.base).unwrap());
        for ae in AES.iter().copied().chain([Some("gzip;q=0.5, identity;q=0.6"), Some("br, gzip;q=0.1"), Some("identity;q=0, *;q=0.2")]) {
            for auto_gzip in [true, false] {
                let c = Case {
                    path: p.to_string(),
                    accept_encoding: ae.map(|s| s.to_string()),
                    auto_gzip,
                };
                acc.run_case(cx, "named", &c, |acc| check(&rt, &tree, &dirs, &c, acc));
            }
        }
        rt.shutdown_background();
    }));
    acc
}

pub fn replay(_cx: &Cx, _phase: &str, case: &Value, acc: &mut Acc) -> Check {
    let c: Case = serde_json::from_value(case.clone()).map_err(|e| Fail {
        sig: "replay-decode".into(),
        msg: e.to_string(),
    })?;
    let tree = make_tree("c19-replay");
    let rt = tokio::runtime::Builder::new_multi_thread().worker_threads(1).build().expect("runtime");
    let dirs = (FsDir::builder().auto_gzip(true).for_path(&tree.base).unwrap(), FsDir::builder().auto_gzip(false).for_path(&tree.base).unwrap());
    let r = check(&rt, &tree, &dirs, &c, acc);
    rt.shutdown_background();
    r
}

pub fn health(acc: &Acc) -> Vec<String> {
    let mut v = Vec::new();
    for l in ["rejected", "plain", "gz-sibling", "plain-after-gz-lookup"] {
        if acc.label(l) < 10 {
            v.push(format!("label {l} seen only {} times", acc.label(l)));
        }
    }
    v
}
