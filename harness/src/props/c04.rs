//! C04 — conditional headers follow RFC 7232 precedence and comparison functions.

use crate::drain::DrainOpts;
use crate::engine::*;
use crate::ensure;
use crate::entity::{EntitySpec, Mtime, PStep, ReqSpec};
use crate::reqgen::{self, http_date, quote, T0};
use crate::served::{serve_case, ServeFailure, Served};
use crate::util::{fingerprint, Bs};
use proptest::prelude::*;
use serde::{Deserialize, Serialize};
use serde_json::{json, Value};

pub const META: Meta = Meta {
    id: "C04",
    level: "exploration",
    rule: "Categorical product, enumerated: entity ETag {absent, strong, weak, strong containing ', '} x mtime {absent, whole second, sub-second} x If-Match and If-None-Match each in {absent} + 12 representative lists (crossed fully with each other) x If-Modified-Since, If-Unmodified-Since in {absent, LM-1s, LM, LM+1s, not a date (judged where the header is ignored)} x {GET, HEAD}; every list of 1-3 tags over {own tag, W/-toggled, other strong, other weak, comma tag} and '*' crossed with all other dimensions singly; the tag-content phase (entity tags that are a list separator, end in backslashes, hold obs-text or U+FFFD, against every list of 1-3 tags over own / toggled / one-byte-off / comma-edged / backslash-ended neighbours x 4 separators); lists of up to 301 tags with the deciding tag last; If-Match / If-None-Match repeated over 2-3 field lines (the answer must be that of the first line alone or of all lines joined); proptest for 4-tag lists, random tag bytes, dates beyond 2^31 and 2^32 seconds, all list separators, obsolete date formats, an added Range header and other mtimes. Oracle: the statement evaluated literally by an independent precondition evaluator (own quoted-string-aware list splitter); 'continues' = same status/headers/body as the request without the four conditionals. Non-trivial = >= 2 conditional headers, or a list of >= 2 tags, or a sub-second mtime with a date header; distinct by fingerprint of case.",
    assumptions: &[
        "validators are well-formed (the statement's premise); modification times are not in the future (C14 covers the clamp)",
        "HTTP-dates are parsed with the httpdate crate in the oracle as well",
        "list separators: ',' followed by optional SP/HTAB",
    ],
};

#[derive(Clone, Debug, Serialize, Deserialize)]
pub struct Case {
    pub etag: Option<Bs>,
    pub mtime: Mtime,
    pub method: String,
    pub if_match: Option<Bs>,
    pub if_none_match: Option<Bs>,
    pub if_modified_since: Option<Bs>,
    pub if_unmodified_since: Option<Bs>,
    #[serde(default)]
    pub range: Option<Bs>,
}

/// Splits a well-formed `#entity-tag` list; `None` if it is not one.
pub fn split_tags(v: &[u8]) -> Option<Vec<Vec<u8>>> {
    let mut out = Vec::new();
    let mut i = 0;
    loop {
        let start = i;
        if v[i..].starts_with(b"W/") {
            i += 2;
        }
        if v.get(i) != Some(&b'"') {
            return None;
        }
        i += 1;
        while i < v.len() && v[i] != b'"' {
            i += 1;
        }
        if i >= v.len() {
            return None;
        }
        i += 1;
        out.push(v[start..i].to_vec());
        if i == v.len() {
            return Some(out);
        }
        if v[i] != b',' {
            return None;
        }
        i += 1;
        while i < v.len() && (v[i] == b' ' || v[i] == b'\t') {
            i += 1;
        }
        if i >= v.len() {
            return None;
        }
    }
}

fn opaque(t: &[u8]) -> &[u8] {
    t.strip_prefix(b"W/").unwrap_or(t)
}

fn strong_eq(a: &[u8], b: &[u8]) -> bool {
    !a.starts_with(b"W/") && !b.starts_with(b"W/") && a == b
}

fn weak_eq(a: &[u8], b: &[u8]) -> bool {
    opaque(a) == opaque(b)
}

fn parse_date(v: &[u8]) -> Option<u64> {
    let s = std::str::from_utf8(v).ok()?;
    let t = httpdate::parse_http_date(s).ok()?;
    t.duration_since(std::time::UNIX_EPOCH).ok().map(|d| d.as_secs())
}

#[derive(Debug, PartialEq, Eq, Clone, Copy)]
pub enum Verdict {
    PreconditionFailed,
    NotModified,
    Continue,
}

/// The statement, evaluated literally. `None`: some validator is not well-formed (outside the premise).
pub fn evaluate(c: &Case) -> Option<Verdict> {
    let lm_sec = match c.mtime {
        Mtime::None => None,
        // Times at or after "now" are clamped by the server (C14's subject): outside this premise.
        Mtime::At(s, _) if s + 5 >= reqgen::now_secs() => return None,
        Mtime::At(s, _) => Some(s),
        Mtime::Future(..) => return None,
        // HTTP-dates (as this stack reads and writes them) start at the epoch: outside the premise.
        Mtime::Before(..) => return None,
    };
    let etag = c.etag.as_ref().map(|t| &t.0[..]);
    let pf = match &c.if_match {
        Some(im) => {
            if im.0 == b"*" {
                false
            } else {
                let tags = split_tags(&im.0)?;
                !tags.iter().any(|t| etag.map_or(false, |e| strong_eq(t, e)))
            }
        }
        None => match (&c.if_unmodified_since, lm_sec) {
            (Some(d), Some(lm)) => parse_date(&d.0)? < lm,
            (Some(d), None) => {
                let _ = d; // ignored entirely: the entity has no modification time
                false
            }
            _ => false,
        },
    };
    // A date header the statement says is ignored (If-Unmodified-Since beside If-Match,
    // If-Modified-Since beside If-None-Match, both when the entity has no modification time) is not
    // looked at, so it need not be well formed either (RFC 7232 3.3 / 3.4: "MUST ignore").
    let nm = match &c.if_none_match {
        Some(inm) => {
            if inm.0 == b"*" {
                true
            } else {
                let tags = split_tags(&inm.0)?;
                tags.iter().any(|t| etag.map_or(false, |e| weak_eq(t, e)))
            }
        }
        None => match (&c.if_modified_since, lm_sec) {
            (Some(d), Some(lm)) => lm <= parse_date(&d.0)?,
            _ => false,
        },
    };
    Some(if pf {
        Verdict::PreconditionFailed
    } else if nm {
        Verdict::NotModified
    } else {
        Verdict::Continue
    })
}

const LEN: u64 = 40;

fn build(c: &Case, with_conditionals: bool) -> (EntitySpec, ReqSpec) {
    let ent = EntitySpec {
        len: LEN,
        etag: c.etag.clone(),
        mtime: c.mtime,
        headers: vec![("content-type".into(), Bs::s("text/plain"))],
        plan: vec![PStep::Chunk(16)],
        faults: vec![],
        tail: vec![],
        segments: 0,
        counting_hint: false,
        unfused_errors: false,
    };
    let mut req = ReqSpec::get().method(&c.method);
    if with_conditionals {
        for (n, v) in [
            ("if-match", &c.if_match),
            ("if-none-match", &c.if_none_match),
            ("if-modified-since", &c.if_modified_since),
            ("if-unmodified-since", &c.if_unmodified_since),
        ] {
            if let Some(v) = v {
                req = req.with(n, &v.0);
            }
        }
    }
    if let Some(r) = &c.range {
        req = req.with("range", &r.0);
    }
    (ent, req)
}

fn run(c: &Case, with: bool) -> Result<Served, ServeFailure> {
    let (e, r) = build(c, with);
    serve_case(&e, &r, DrainOpts { extra_polls: 0, ..Default::default() })
}

fn class(c: &Case) -> String {
    let tagk = |t: &Option<Bs>| match t {
        None => "-".to_string(),
        Some(v) if v.0 == b"*" => "*".to_string(),
        Some(v) => {
            let tags = split_tags(&v.0).unwrap_or_default();
            let e = c.etag.as_ref().map(|e| &e.0[..]);
            let strong = tags.iter().any(|t| e.map_or(false, |e| strong_eq(t, e)));
            let weak = tags.iter().any(|t| e.map_or(false, |e| weak_eq(t, e)));
            format!("{}{}", tags.len().min(4), if strong { "s" } else if weak { "w" } else { "n" })
        }
    };
    let lm = match c.mtime {
        Mtime::At(s, n) => Some((s, n)),
        _ => None,
    };
    let datek = |d: &Option<Bs>| match (d, lm) {
        (None, _) => "-",
        (Some(_), None) => "x",
        (Some(d), Some((s, _))) => match parse_date(&d.0) {
            Some(v) if v < s => "<",
            Some(v) if v == s => "=",
            Some(_) => ">",
            None => "?",
        },
    };
    format!(
        "etag={} mtime={} im={} inm={} ims={} ius={}",
        match &c.etag {
            None => "none",
            Some(t) if t.0.starts_with(b"W/") => "weak",
            Some(_) => "strong",
        },
        match c.mtime {
            Mtime::None => "none",
            Mtime::At(_, 0) => "whole",
            _ => "subsec",
        },
        tagk(&c.if_match),
        tagk(&c.if_none_match),
        datek(&c.if_modified_since),
        datek(&c.if_unmodified_since)
    )
}

pub fn check(c: &Case, acc: &mut Acc) -> Check {
    let Some(want) = evaluate(c) else {
        acc.count("not-well-formed-skipped");
        return Ok(());
    };
    let got = match run(c, true) {
        Ok(s) => s,
        Err(ServeFailure::BadRequestSpec) => {
            acc.count("invalid-request-spec-skipped");
            return Ok(());
        }
        Err(ServeFailure::Panic(_)) => {
            acc.count("aborted-by-panic-in-serve(see C13)");
            return Ok(());
        }
    };
    let st = got.head.status;
    let cls = class(c);
    let what = || format!("{} :: {}", cls, serde_json::to_string(c).unwrap_or_default());
    match want {
        Verdict::PreconditionFailed => {
            ensure!(st == 412, format!("want-412-got-{st}:{cls}"), "the statement requires 412, serve answered {st}; {}", what());
        }
        Verdict::NotModified => {
            ensure!(st == 304, format!("want-304-got-{st}:{cls}"), "the statement requires 304, serve answered {st}; {}", what());
        }
        Verdict::Continue => {
            let Ok(base) = run(c, false) else {
                acc.count("aborted-by-panic-in-serve(see C13)");
                return Ok(());
            };
            ensure!(
                st == base.head.status,
                format!("want-continue-got-{st}:{cls}"),
                "no precondition applies, so the answer must be that of the unconditional request ({}), serve answered {st}; {}",
                base.head.status,
                what()
            );
            ensure!(
                got.head.multiset_without(&["date"]) == base.head.multiset_without(&["date"]) && got.trace.body == base.trace.body,
                format!("continue-differs:{cls}"),
                "response differs from the unconditional one: {:?} vs {:?}; {}",
                got.head.headers,
                base.head.headers,
                what()
            );
        }
    }
    let n_cond = [&c.if_match, &c.if_none_match, &c.if_modified_since, &c.if_unmodified_since]
        .iter()
        .filter(|x| x.is_some())
        .count();
    let multi_tag = [&c.if_match, &c.if_none_match]
        .iter()
        .any(|x| x.as_ref().map_or(false, |v| split_tags(&v.0).map_or(false, |t| t.len() >= 2)));
    let subsec_date = matches!(c.mtime, Mtime::At(_, n) if n > 0) && (c.if_modified_since.is_some() || c.if_unmodified_since.is_some());
    let label = format!("{:?}", want);
    acc.note(&label, n_cond >= 2 || multi_tag || subsec_date, fingerprint(c), || json!({"case": c, "class": cls, "status": st}));
    Ok(())
}

/// If-Match / If-None-Match sent as several field lines. The statement does not say how field lines
/// combine: the answer must be the one the statement gives for the first line alone or the one it
/// gives for all lines joined into one list (RFC 7230 3.2.2) - anything else is wrong under
/// either reading.
#[derive(Clone, Debug, Serialize, Deserialize)]
pub struct MultiLine {
    pub base: Case,
    pub more_if_match: Vec<Bs>,
    pub more_if_none_match: Vec<Bs>,
}

pub fn check_multiline(m: &MultiLine, acc: &mut Acc) -> Check {
    let joined = |first: &Option<Bs>, more: &[Bs]| -> Option<Bs> {
        let first = first.as_ref()?;
        let mut v = first.0.clone();
        for l in more {
            v.extend_from_slice(b", ");
            v.extend_from_slice(&l.0);
        }
        Some(Bs(v))
    };
    let mut all = m.base.clone();
    all.if_match = joined(&m.base.if_match, &m.more_if_match);
    all.if_none_match = joined(&m.base.if_none_match, &m.more_if_none_match);
    let (Some(v1), Some(v2)) = (evaluate(&m.base), evaluate(&all)) else {
        acc.count("multi-line:outside-premise");
        return Ok(());
    };
    let (ent, mut req) = build(&m.base, true);
    for l in &m.more_if_match {
        req = req.with("if-match", &l.0);
    }
    for l in &m.more_if_none_match {
        req = req.with("if-none-match", &l.0);
    }
    // keep the field lines of one name together and in order (first line first)
    req.headers.sort_by_key(|(k, _)| k.clone());
    let Ok(got) = serve_case(&ent, &req, DrainOpts { extra_polls: 0, ..Default::default() }) else {
        acc.count("aborted-by-panic-in-serve(see C13)");
        return Ok(());
    };
    let Ok(uncond) = run(&m.base, false) else { return Ok(()) };
    let status_of = |v: Verdict| match v {
        Verdict::PreconditionFailed => 412,
        Verdict::NotModified => 304,
        Verdict::Continue => uncond.head.status,
    };
    let (a, b) = (status_of(v1), status_of(v2));
    let st = got.head.status;
    ensure!(
        st == a || st == b,
        format!("multi-line:want-{a}-or-{b}-got-{st}"),
        "the first field line alone gives {a}, all lines joined give {b}, serve answered {st}; {}",
        serde_json::to_string(m).unwrap_or_default()
    );
    acc.note(&format!("multi-line:{}", if a == b { "readings-agree" } else { "readings-differ" }), true, fingerprint(m), || json!({"case": m, "status": st}));
    Ok(())
}

// ------------------------------------------------------------------------------------------------

fn etags() -> Vec<Option<Bs>> {
    vec![None, Some(quote(b"foo", false)), Some(quote(b"foo", true)), Some(quote(b"a, b", false))]
}

fn mtimes() -> Vec<Mtime> {
    vec![Mtime::None, Mtime::At(T0, 0), Mtime::At(T0, 500_000_000)]
}

fn cand_tags(etag: &Option<Bs>) -> Vec<Vec<u8>> {
    let own = etag.as_ref().map(|t| t.0.clone()).unwrap_or_else(|| b"\"foo\"".to_vec());
    vec![
        own.clone(),
        reqgen::toggle_weak(&own),
        b"\"other\"".to_vec(),
        b"W/\"other\"".to_vec(),
        b"\"x, y\"".to_vec(),
    ]
}

fn join(tags: &[&Vec<u8>], sep: &str) -> Bs {
    let mut v = Vec::new();
    for (i, t) in tags.iter().enumerate() {
        if i > 0 {
            v.extend_from_slice(sep.as_bytes());
        }
        v.extend_from_slice(t);
    }
    Bs(v)
}

/// 12 representative lists (+ absent) for the full cross.
fn representative(etag: &Option<Bs>) -> Vec<Option<Bs>> {
    let c = cand_tags(etag);
    vec![
        None,
        Some(Bs::s("*")),
        Some(join(&[&c[0]], ",")),
        Some(join(&[&c[1]], ",")),
        Some(join(&[&c[2]], ",")),
        Some(join(&[&c[3]], ",")),
        Some(join(&[&c[4]], ",")),
        Some(join(&[&c[2], &c[0]], ", ")),
        Some(join(&[&c[4], &c[1]], ",")),
        Some(join(&[&c[2], &c[3], &c[4]], ", ")),
        Some(join(&[&c[4], &c[3], &c[0]], ",\t")),
        Some(join(&[&c[1], &c[1], &c[2]], ",  ")),
        Some(join(&[&c[3], &c[0], &c[2], &c[4]], ", ")),
    ]
}

fn dates(m: Mtime) -> Vec<Option<Bs>> {
    let base = match m {
        Mtime::At(s, _) => s,
        _ => T0,
    };
    // the last one is not an HTTP-date: judged only where the statement says the header is ignored
    vec![None, Some(Bs::s(&http_date(base - 1))), Some(Bs::s(&http_date(base))), Some(Bs::s(&http_date(base + 1))), Some(Bs::s("Sun, 06 Nov 1994 08:49:37 GMT; length=10"))]
}

fn all_lists(etag: &Option<Bs>, max: usize) -> Vec<Bs> {
    let c = cand_tags(etag);
    let mut out = vec![Bs::s("*")];
    let seps = reqgen::LIST_SEPS;
    let mut k = 0usize;
    for a in &c {
        out.push(join(&[a], ","));
        for b in &c {
            k += 1;
            out.push(join(&[a, b], seps[k % seps.len()]));
            if max >= 3 {
                for d in &c {
                    k += 1;
                    out.push(join(&[a, b, d], seps[k % seps.len()]));
                }
            }
        }
    }
    out
}

fn random_strategy() -> BoxedStrategy<Case> {
    (reqgen::etag_strategy(), reqgen::past_mtime_strategy())
        .prop_flat_map(|(etag, mtime)| {
            let date = move || {
                prop_oneof![
                    12 => reqgen::date_value(mtime),
                    // not an HTTP-date at all (judged only where the statement says the header is ignored)
                    1 => proptest::sample::select(&["garbage", "", "0", "1994-11-06T08:49:37Z", "Sun, 06 Nov 1994 08:49:37 GMT; length=10", "Sun, 06 Nov 1994 08:49:37 +0000", "\u{e9}"][..]).prop_map(Bs::s),
                    1 => (0u8..4, 0usize..2).prop_map(move |(off, form)| {
                        let base = match mtime { Mtime::At(s, _) => s, _ => T0 };
                        let s = (base + off as u64).saturating_sub(1);
                        let forms = reqgen::obsolete_date_forms(s);
                        Bs::s(&forms[form % forms.len()])
                    }),
                ]
            };
            (
                Just(etag.clone()),
                Just(mtime),
                prop_oneof![Just("GET".to_string()), Just("HEAD".to_string())],
                proptest::option::weighted(0.5, reqgen::tag_list(&etag, 4)),
                proptest::option::weighted(0.5, reqgen::tag_list(&etag, 4)),
                proptest::option::weighted(0.5, date()),
                proptest::option::weighted(0.5, date()),
                proptest::option::weighted(0.3, proptest::sample::select(&["bytes=0-0", "bytes=5-", "bytes=100-", "bytes=0-1,30-31"][..]).prop_map(Bs::s)),
            )
        })
        .prop_map(|(etag, mtime, method, if_match, if_none_match, if_modified_since, if_unmodified_since, range)| Case {
            etag,
            mtime,
            method,
            if_match,
            if_none_match,
            if_modified_since,
            if_unmodified_since,
            range,
        })
        .boxed()
}

pub fn run_all(cx: &Cx) -> Acc {
    let mut acc = Acc::new();
    // Full cross on the representative lists.
    let mut units = Vec::new();
    for e in etags() {
        for m in mtimes() {
            units.push((e.clone(), m));
        }
    }
    acc.merge(par_units(cx, "product-representative", &units, true, "etag x mtime x 13 If-Match x 13 If-None-Match x 4 IMS x 4 IUS x GET/HEAD", |cx, (e, m), acc| {
        for im in representative(e) {
            for inm in representative(e) {
                for ims in dates(*m) {
                    for ius in dates(*m) {
                        for method in ["GET", "HEAD"] {
                            let c = Case {
                                etag: e.clone(),
                                mtime: *m,
                                method: method.into(),
                                if_match: im.clone(),
                                if_none_match: inm.clone(),
                                if_modified_since: ims.clone(),
                                if_unmodified_since: ius.clone(),
                                range: None,
                            };
                            acc.run_case(cx, "product-representative", &c, |acc| check(&c, acc));
                        }
                    }
                }
            }
        }
    }));
    // Every list of 1..3 tags, as If-Match and as If-None-Match, with all date combinations.
    let max = 3;
    acc.merge(par_units(cx, "all-lists", &units, true, "every list of 1-3 tags over 5 candidates and '*', as If-Match or If-None-Match, x 16 date combinations x GET/HEAD", |cx, (e, m), acc| {
        for list in all_lists(e, max) {
            for as_im in [true, false] {
                for ims in dates(*m) {
                    for ius in dates(*m) {
                        for method in ["GET", "HEAD"] {
                            let c = Case {
                                etag: e.clone(),
                                mtime: *m,
                                method: method.into(),
                                if_match: if as_im { Some(list.clone()) } else { None },
                                if_none_match: if as_im { None } else { Some(list.clone()) },
                                if_modified_since: ims.clone(),
                                if_unmodified_since: ius.clone(),
                                range: None,
                            };
                            acc.run_case(cx, "all-lists", &c, |acc| check(&c, acc));
                        }
                    }
                }
            }
        }
    }));
    // Tag *content*: entity tags that are a list separator, end in backslashes or hold obs-text,
    // against every list of 1-3 tags over {own, W/-toggled, one byte off, letter-case twins, neighbours ending / starting
    // with a comma, a tag ending in a backslash, another tag} with each separator.
    let awkward: Vec<Bs> = [&b","[..], b"5D41aB", b"foo", b", ", b"\\", b"C:\\dir\\", b"a\\\\", b"v\xe9", b"\x80\xff", b"\xef\xbf\xbd", b"", b"W/", b"*"]
        .iter()
        .flat_map(|o| [quote(o, false), quote(o, true)])
        .collect();
    acc.merge(par_units(cx, "awkward-tags", &awkward, true, "entity tag content {',', ', ', backslashes, obs-text, U+FFFD, empty, 'W/', '*'} x strong/weak x every list of 1-3 tags over 7 candidates x 4 separators x {If-Match, If-None-Match} x GET/HEAD", |cx, etag, acc| {
        let mut cands: Vec<Vec<u8>> = vec![etag.0.clone(), reqgen::toggle_weak(&etag.0), b"\"a,\"".to_vec(), b"\",b\"".to_vec(), b"\"x\\\"".to_vec(), b"\"other\"".to_vec()];
        cands.extend(reqgen::one_byte_off(&etag.0).into_iter().take(1));
        cands.extend(reqgen::case_twins(&etag.0).into_iter().take(2));
        let mut lists: Vec<Vec<&Vec<u8>>> = Vec::new();
        for a in &cands {
            lists.push(vec![a]);
            for b in &cands {
                lists.push(vec![a, b]);
                for d in &cands {
                    lists.push(vec![a, b, d]);
                }
            }
        }
        for l in &lists {
            for sep in reqgen::LIST_SEPS {
                if l.len() == 1 && *sep != "," {
                    continue;
                }
                let list = join(l, sep);
                for as_im in [true, false] {
                    for method in ["GET", "HEAD"] {
                        let c = Case {
                            etag: Some(etag.clone()),
                            mtime: Mtime::At(T0, 0),
                            method: method.into(),
                            if_match: if as_im { Some(list.clone()) } else { None },
                            if_none_match: if as_im { None } else { Some(list.clone()) },
                            if_modified_since: None,
                            if_unmodified_since: None,
                            range: None,
                        };
                        acc.run_case(cx, "awkward-tags", &c, |acc| check(&c, acc));
                    }
                }
            }
        }
    }));
    // The header repeated over two or three field lines.
    let line_units: Vec<Bs> = vec![quote(b"foo", false), quote(b"foo", true), quote(b"a, b", false)];
    acc.merge(par_units(cx, "repeated-field-lines", &line_units, true, "If-Match / If-None-Match as 2-3 field lines over {own, W/-toggled, other strong, other weak, a two-tag list} x GET/HEAD x 3 entity tags: first-line answer or joined-list answer", |cx, etag, acc| {
        let own = etag.0.clone();
        let lines: Vec<Vec<u8>> = vec![own.clone(), reqgen::toggle_weak(&own), b"\"other\"".to_vec(), b"W/\"other\"".to_vec(), [b"\"x\", ".as_slice(), &own].concat()];
        for a in &lines {
            for b in &lines {
                for c3 in std::iter::once(None).chain(lines.iter().map(Some)) {
                    for as_im in [true, false] {
                        for method in ["GET", "HEAD"] {
                            let more: Vec<Bs> = std::iter::once(Bs(b.clone())).chain(c3.map(|x| Bs(x.clone()))).collect();
                            let m = MultiLine {
                                base: Case {
                                    etag: Some(etag.clone()),
                                    mtime: Mtime::At(T0, 0),
                                    method: method.into(),
                                    if_match: if as_im { Some(Bs(a.clone())) } else { None },
                                    if_none_match: if as_im { None } else { Some(Bs(a.clone())) },
                                    if_modified_since: None,
                                    if_unmodified_since: None,
                                    range: None,
                                },
                                more_if_match: if as_im { more.clone() } else { vec![] },
                                more_if_none_match: if as_im { vec![] } else { more },
                            };
                            acc.run_case(cx, "repeated-field-lines", &m, |acc| check_multiline(&m, acc));
                        }
                    }
                }
            }
        }
    }));
    // List *length*: the deciding tag after k other tags.
    let ks: Vec<usize> = vec![0, 1, 2, 3, 5, 7, 8, 9, 15, 16, 17, 31, 32, 33, 63, 64, 65, 100, 255, 256, 300];
    acc.merge(par_units(cx, "long-tag-lists", &ks, true, "k other tags (strong, weak, comma-bearing) then {own, W/-toggled, one byte off, nothing} x 4 separators x {If-Match, If-None-Match} x 4 entity tags x GET/HEAD", |cx, &k, acc| {
        for etag in [quote(b"foo", false), quote(b"foo", true), quote(b"a, b", false), quote(b",", false)] {
            let mut lasts: Vec<Option<Vec<u8>>> = vec![None, Some(etag.0.clone()), Some(reqgen::toggle_weak(&etag.0))];
            lasts.extend(reqgen::one_byte_off(&etag.0).into_iter().take(1).map(Some));
            for last in &lasts {
                for sep in reqgen::LIST_SEPS {
                    let mut tags: Vec<Vec<u8>> = (0..k)
                        .map(|i| match i % 4 {
                            0 => format!("\"f{i}\"").into_bytes(),
                            1 => format!("W/\"f{i}\"").into_bytes(),
                            2 => format!("\"f{i}, g\"").into_bytes(),
                            _ => format!("\"{i},\"").into_bytes(),
                        })
                        .collect();
                    tags.extend(last.clone());
                    if tags.is_empty() {
                        continue;
                    }
                    let refs: Vec<&Vec<u8>> = tags.iter().collect();
                    let list = join(&refs, sep);
                    for as_im in [true, false] {
                        for method in ["GET", "HEAD"] {
                            let c = Case {
                                etag: Some(etag.clone()),
                                mtime: Mtime::At(T0, 0),
                                method: method.into(),
                                if_match: if as_im { Some(list.clone()) } else { None },
                                if_none_match: if as_im { None } else { Some(list.clone()) },
                                if_modified_since: None,
                                if_unmodified_since: None,
                                range: None,
                            };
                            acc.run_case(cx, "long-tag-lists", &c, |acc| check(&c, acc));
                        }
                    }
                }
            }
        }
    }));
    let n = cx.tier.pick(1u64, 20u64);
    acc.merge(par_proptest(cx, "random", 100_000 * n, random_strategy, |c, acc| check(c, acc)));
    acc
}

pub fn replay(_cx: &Cx, phase: &str, case: &Value, acc: &mut Acc) -> Check {
    if phase.ends_with("repeated-field-lines") {
        let m: MultiLine = serde_json::from_value(case.clone()).map_err(|e| Fail { sig: "replay-decode".into(), msg: e.to_string() })?;
        return check_multiline(&m, acc);
    }
    let c: Case = serde_json::from_value(case.clone()).map_err(|e| Fail {
        sig: "replay-decode".into(),
        msg: e.to_string(),
    })?;
    check(&c, acc)
}

pub fn health(acc: &Acc) -> Vec<String> {
    let mut v = Vec::new();
    for l in ["PreconditionFailed", "NotModified", "Continue"] {
        if acc.label(l) < 1000 {
            v.push(format!("label {l} seen only {} times", acc.label(l)));
        }
    }
    v
}
