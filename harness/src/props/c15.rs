//! C15 — HEAD mirrors GET without touching entity data.

use crate::drain::{drain, DrainOpts};
use crate::engine::*;
use crate::ensure;
use crate::entity::{EntitySpec, Mtime, ReqSpec, RespHead};
use crate::props::c01::{opts_for, Case};
use crate::reqgen::{self, Profile};
use crate::served::{serve_case, ServeFailure};
use crate::util::{fingerprint, Bs};
use proptest::prelude::*;
use serde::{Deserialize, Serialize};
use serde_json::{json, Value};

pub const META: Meta = Meta {
    id: "C15",
    level: "exploration",
    rule: "Metamorphic pairs: every (entity, request) from the C01-C06 generators (all six request headers, multipart-biased ranges, all entity lengths; one case in thirteen from C06's multipart family including entities of about 2^64 bytes whose multipart length overflows or nearly does) is served once with GET and once with HEAD; modification times not in the future (two calls are compared); plus streaming_body built from the same Accept-Encoding / level / chunk-size with GET, HEAD and POST, as Request and as Parts. Oracle: same status, same header multiset (Date excluded; Last-Modified excluded only for future mtimes), HEAD body empty with exact-0 hint for 2xx/3xx/416, no get_range call for HEAD; streaming_body: same headers, no writer for HEAD, body ends cleanly with 0 bytes. Non-trivial = pair whose GET answer was a 206 (single or multipart) or carried a non-empty body; distinct by fingerprint of the case.",
    assumptions: &[
        "the two responses are produced within the same run; Date may differ and is excluded",
        "harness entity honours the Entity contract",
    ],
};

#[derive(Clone, Debug, Serialize, Deserialize)]
pub struct SbCase {
    pub accept_encoding: Option<Bs>,
    pub level: u32,
    pub chunk: usize,
}

pub fn check_serve(c: &Case, acc: &mut Acc) -> Check {
    let mut get_req = c.req.clone();
    get_req.method = "GET".into();
    let mut head_req = c.req.clone();
    head_req.method = "HEAD".into();
    let g = match serve_case(&c.ent, &get_req, DrainOpts { max_bytes: 4096, max_frames: 64, extra_polls: 0, ..opts_for(&c.ent, 0) }) {
        Ok(s) => s,
        Err(ServeFailure::BadRequestSpec) => {
            acc.count("invalid-request-spec-skipped");
            return Ok(());
        }
        Err(ServeFailure::Panic(_)) => {
            acc.count("aborted-by-panic-in-serve(see C13)");
            return Ok(());
        }
    };
    let h = match serve_case(&c.ent, &head_req, opts_for(&c.ent, 1)) {
        Ok(s) => s,
        Err(_) => {
            acc.count("aborted-by-panic-in-serve(see C13)");
            return Ok(());
        }
    };
    if g.trace.panicked().is_some() || h.trace.panicked().is_some() {
        acc.count("aborted-by-panic-in-drain(see C13)");
        return Ok(());
    }
    let what = format!(
        "entity len={} etag={:?} mtime={:?} headers={:?}; request headers {:?}",
        c.ent.len, c.ent.etag, c.ent.mtime, c.ent.headers, c.req.headers
    );
    ensure!(
        g.head.status == h.head.status,
        format!("status:get-{}-head-{}", g.head.status, h.head.status),
        "GET answered {}, HEAD answered {}; {what}",
        g.head.status,
        h.head.status
    );
    let future = matches!(c.ent.mtime, Mtime::Future(..)) || matches!(c.ent.mtime, Mtime::At(s, _) if s > reqgen::now_secs().saturating_sub(5));
    let excl: &[&str] = if future { &["date", "last-modified"] } else { &["date"] };
    let gm = g.head.multiset_without(excl);
    let hm = h.head.multiset_without(excl);
    if gm != hm {
        let only_g: Vec<_> = gm.iter().filter(|x| !hm.contains(x)).collect();
        let only_h: Vec<_> = hm.iter().filter(|x| !gm.contains(x)).collect();
        let name = only_g.first().or(only_h.first()).map(|x| x.0.clone()).unwrap_or_default();
        return fail(
            format!("headers-differ:{}:{}", g.head.status, name),
            format!("status {}: only in GET {:?}; only in HEAD {:?}; {what}", g.head.status, only_g, only_h),
        );
    }
    let st = h.head.status;
    if (200..400).contains(&st) || st == 416 {
        ensure!(
            h.trace.delivered == 0,
            format!("head-body:{st}"),
            "HEAD {st} delivered {} body bytes; {what}",
            h.trace.delivered
        );
        ensure!(
            h.hint0.0 == 0 && h.hint0.1 == Some(0),
            format!("head-hint:{st}"),
            "HEAD {st} body advertises size hint {}..{:?}; {what}",
            h.hint0.0,
            h.hint0.1
        );
        ensure!(h.trace.ended_cleanly(), format!("head-body-not-clean:{st}"), "HEAD {st} body did not end cleanly: {}", h.trace.summary());
    }
    ensure!(
        h.log.ranges.is_empty(),
        format!("head-read-entity:{st}"),
        "HEAD called get_range {:?}; {what}",
        h.log.ranges
    );
    let ct_multi = g.head.all("content-type").iter().any(|v| v.starts_with(b"multipart/"));
    let label = if st == 206 && ct_multi { "multipart".to_string() } else { st.to_string() };
    let nontrivial = st == 206 || g.trace.delivered > 0;
    acc.note(&label, nontrivial, fingerprint(c), || {
        json!({"entity_len": c.ent.len, "request_headers": c.req.headers, "status": st, "head_headers": h.head.headers, "get_first_bytes": g.trace.delivered})
    });
    Ok(())
}

type SbBody = http_serve::Body<bytes::Bytes, crate::entity::HarnessError>;

fn sb_build(c: &SbCase, method: &str, as_parts: bool) -> (RespHead, bool, SbBody) {
    let mut b = http::Request::builder().method(method).uri("/");
    if let Some(ae) = &c.accept_encoding {
        b = b.header("accept-encoding", http::HeaderValue::from_bytes(&ae.0).unwrap());
    }
    let req = b.body(()).unwrap();
    let builder = if as_parts {
        let (parts, _) = req.into_parts();
        http_serve::streaming_body(&parts)
    } else {
        http_serve::streaming_body(&req)
    };
    let (resp, w) = builder.with_chunk_size(c.chunk).with_gzip_level(c.level).build::<bytes::Bytes, crate::entity::HarnessError>();
    let head = RespHead::of(&resp);
    let has_writer = w.is_some();
    drop(w);
    (head, has_writer, resp.into_body())
}

pub fn check_sb(c: &SbCase, acc: &mut Acc) -> Check {
    if let Some(ae) = &c.accept_encoding {
        if http::HeaderValue::from_bytes(&ae.0).is_err() {
            acc.count("invalid-request-spec-skipped");
            return Ok(());
        }
    }
    let r = crate::panics::guard(|| {
        let mut out = Vec::new();
        for parts in [false, true] {
            for m in ["GET", "HEAD", "POST"] {
                let (head, w, body) = sb_build(c, m, parts);
                let t = drain(body, DrainOpts { extra_polls: 1, ..Default::default() });
                out.push((m, parts, head, w, t));
            }
        }
        out
    });
    let out = match r {
        Ok(o) => o,
        Err(m) => return fail("streaming-body-panic", format!("streaming_body panicked: {m}; case {c:?}")),
    };
    let reference = out[0].2.multiset_without(&[]);
    for (m, parts, head, w, t) in &out {
        ensure!(
            head.multiset_without(&[]) == reference && head.status == out[0].2.status,
            format!("sb-headers-differ:{m}"),
            "streaming_body headers for {m} (parts={parts}) are {:?}, for GET {:?}; case {c:?}",
            head.headers,
            out[0].2.headers
        );
        if *m == "HEAD" {
            ensure!(!*w, "sb-head-writer", "streaming_body returned a writer for HEAD (parts={parts}); case {c:?}");
            ensure!(
                t.ended_cleanly() && t.delivered == 0,
                "sb-head-body",
                "HEAD streaming body did not end cleanly with 0 bytes (parts={parts}): {}",
                t.summary()
            );
        } else {
            ensure!(*w, format!("sb-no-writer:{m}"), "streaming_body returned no writer for {m} (parts={parts}); case {c:?}");
        }
    }
    let gz = out[0].2.all("content-encoding").iter().any(|v| v == b"gzip");
    acc.note(if gz { "streaming-gzip" } else { "streaming-identity" }, c.accept_encoding.is_some(), fingerprint(c), || json!({"case": c, "headers": out[0].2.headers}));
    Ok(())
}

fn serve_strategy() -> BoxedStrategy<Case> {
    let p = Profile {
        range: 7,
        if_range: 3,
        cond: 3,
        methods: false,
        max_specs: 4,
        multipart_bias: true,
    };
    prop_oneof![
        12 => reqgen::stable_case_strategy(reqgen::len_strategy(), p).prop_map(|(ent, req)| Case { ent, req }),
        // C06's multipart family: decimal-width boundaries, many small parts, and entities of about
        // 2^64 bytes whose exact multipart length does or does not fit (206 or 413, for both methods)
        1 => crate::props::c06::case_strategy().prop_map(|c| Case { ent: c.ent, req: c.req }),
    ]
    .boxed()
}

pub const AE_SAMPLES: &[&str] = &[
    "gzip", "identity", "*", "gzip;q=0", "gzip;q=0.5, identity;q=0.6", "gzip;q=0.5, identity;q=0.5", "*;q=0", "identity;q=0, *", "br, deflate",
    "gzip, identity;q=0", "", "GZIP", "gzip;q=1.000", "x-gzip", "gzip ; q=0.001 , identity;q=0.000",
];

pub fn sb_strategy() -> BoxedStrategy<SbCase> {
    (
        prop_oneof![
            1 => Just(None),
            6 => proptest::sample::select(AE_SAMPLES).prop_map(|s| Some(Bs::s(s))),
            1 => reqgen::arbitrary_value().prop_map(Some),
        ],
        0u32..=9,
        proptest::sample::select(&[1usize, 16, 4096][..]),
    )
        .prop_map(|(accept_encoding, level, chunk)| SbCase {
            accept_encoding,
            level,
            chunk,
        })
        .boxed()
}

pub fn run(cx: &Cx) -> Acc {
    let mut acc = Acc::new();
    let n = cx.tier.pick(1u64, 15u64);
    acc.merge(par_proptest(cx, "serve-pairs", 250_000 * n, serve_strategy, |c, acc| check_serve(c, acc)));
    acc.merge(par_proptest(cx, "streaming-body", 20_000 * n, sb_strategy, |c, acc| check_sb(c, acc)));
    acc
}

pub fn replay(_cx: &Cx, phase: &str, case: &Value, acc: &mut Acc) -> Check {
    let dec = |e: serde_json::Error| Fail {
        sig: "replay-decode".into(),
        msg: e.to_string(),
    };
    if phase == "streaming-body" {
        check_sb(&serde_json::from_value(case.clone()).map_err(dec)?, acc)
    } else {
        check_serve(&serde_json::from_value(case.clone()).map_err(dec)?, acc)
    }
}

pub fn health(acc: &Acc) -> Vec<String> {
    let mut v = Vec::new();
    for l in ["200", "206", "multipart", "416", "304", "412", "streaming-gzip", "streaming-identity"] {
        if acc.label(l) < 20 {
            v.push(format!("label {l} seen only {} times", acc.label(l)));
        }
    }
    v
}

#[allow(dead_code)]
fn _unused(_: EntitySpec, _: ReqSpec) {}
