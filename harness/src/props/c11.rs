//! C11 — abort and disconnect are signalled to the other side, never swallowed (sequential part;
//! the interleaved part lives in `sched.rs` / C10's engine and is merged in `run`).

use crate::engine::*;
use crate::ensure;
use crate::entity::HarnessError;
use crate::props::stream::{self, build, case_strategy, enumerate_ops, execute, first_issue, Op, Payload, SCase};
use crate::util::{content, fingerprint};
use serde_json::{json, Value};
use std::io::Write;

pub const META: Meta = Meta {
    id: "C11",
    level: "exploration",
    rule: "Histories from the C08/C09 generators (identity and gzip) with one Abort or one DropBody (normal, and while the consumer's thread unwinds from a panic) inserted at every position - before any data, mid-chunk, right after a flush, after partial consumption - followed by at least three more producer operations: exhaustive for base histories of <= 3 operations (chunk sizes 2,3; gzip chunk 1,5), proptest for long ones; plus the memory-release sub-check (8 MiB queued, body dropped, failing call made, live heap measured with a counting allocator), the gzip 'c + 128 KiB cannot be written' sub-check, and producer/consumer schedules with an abort from the C10 scheduler. Oracle: model of accepted bytes; after abort the next terminal event is the aborting error, delivered bytes are a prefix, end-of-stream is never claimed while the error is pending (neither by is_end_stream() nor by an exact size hint of zero, which hyper treats as an empty body and never polls), later writes/flushes fail; after the body is dropped flush with unflushed bytes and chunk-completing writes fail, failures are sticky, the queue is released. Non-trivial = abort/drop at a position with buffered or queued bytes, or concurrent; distinct by fingerprint of history.",
    assumptions: &[
        "a flush with nothing to flush may still succeed after the body is gone (the statement is about calls that have bytes to deliver)",
        "live-heap measurement is made single-threaded before the parallel phases start",
    ],
};

pub fn check(c: &SCase, acc: &mut Acc) -> Check {
    let run = execute(c);
    if let Some(f) = first_issue(&run, &["internal:"]) {
        acc.internal_errors.push(format!("{}: {}", f.sig, f.msg));
        return Ok(());
    }
    if let Some(f) = first_issue(&run, &["abort:", "drop:"]) {
        let mode = if c.gzip.is_some() { "gzip" } else { "identity" };
        return fail(format!("{}:{mode}", f.sig), format!("{}; case {}; trace {}", f.msg, serde_json::to_string(c).unwrap_or_default(), run.trace.summary()));
    }
    let kind = c.ops.iter().find(|o| matches!(o, Op::Abort | Op::DropBody));
    let at = c.ops.iter().position(|o| matches!(o, Op::Abort | Op::DropBody)).unwrap_or(0);
    let buffered = c.ops[..at].iter().any(|o| matches!(o, Op::Write(n) | Op::WriteAll(n) if *n > 0) || matches!(o, Op::WriteV(..)));
    let label = format!(
        "{}:{}",
        match kind {
            Some(Op::Abort) => "abort",
            Some(Op::DropBody) => "drop-body",
            _ => "neither",
        },
        if c.gzip.is_some() { "gzip" } else { "identity" }
    );
    acc.note(&label, kind.is_some() && buffered, fingerprint(c), || json!({"case": c, "trace": run.trace.summary(), "accepted": run.accepted.len(), "received": run.received.len()}));
    Ok(())
}

/// After the body is gone, a gzip writer cannot swallow chunk + 128 KiB of incompressible input.
fn check_gzip_bounded(level: u32, chunk: usize, pre: usize) -> Check {
    let (_h, body, w) = build(Some(level), chunk);
    let mut w = w.expect("writer");
    let _ = w.write_all(&content(0, pre));
    drop(body);
    let data = content(1 << 20, chunk + 128 * 1024);
    let mut written = 0usize;
    let mut failed = false;
    for piece in data.chunks(1000) {
        match w.write(piece) {
            Ok(k) => written += k,
            Err(_) => {
                failed = true;
                break;
            }
        }
    }
    ensure!(
        failed,
        "drop:gzip-unbounded",
        "after the body was dropped a gzip writer (level {level}, chunk {chunk}) accepted {written} bytes of incompressible input without any error"
    );
    ensure!(w.flush().is_err() && w.write(b"x").is_err(), "drop:success-after-failure:gzip", "calls after the first failure succeeded (level {level}, chunk {chunk})");
    Ok(())
}

/// 8 MiB queued, body dropped, first failing call made => the queue is released.
fn check_release(gzip: Option<u32>, chunk: usize) -> Check {
    if !crate::alloc::installed() {
        return Ok(());
    }
    let (_h, body, w) = build(gzip, chunk);
    let mut w = w.expect("writer");
    let block = content(0, 64 * 1024);
    crate::alloc::start();
    for _ in 0..128 {
        let _ = w.write_all(&block);
        let _ = w.flush();
    }
    let queued = crate::alloc::live();
    drop(body);
    let mut failed = false;
    for _ in 0..4 {
        if w.write_all(&block).is_err() || w.flush().is_err() {
            failed = true;
            break;
        }
    }
    let after = crate::alloc::live();
    crate::alloc::stop();
    let mode = if gzip.is_some() { "gzip" } else { "identity" };
    ensure!(
        queued >= 6 << 20,
        "internal:queue-not-observed",
        "expected about 8 MiB queued, the allocator saw {queued} bytes"
    );
    ensure!(
        failed,
        format!("drop:writer-never-told:{mode}"),
        "8 MiB queued, body dropped: four more write_all+flush rounds all succeeded ({mode}, chunk {chunk})"
    );
    let slack = (64 * 1024 + 2 * chunk + 64 * 1024) as isize;
    ensure!(
        after <= slack,
        format!("drop:queue-not-released:{mode}"),
        "8 MiB queued, body dropped, failing call made: {after} bytes are still live above the baseline ({mode}, chunk {chunk})"
    );
    drop(w);
    Ok(())
}

fn producer_suffix(c: usize) -> Vec<Op> {
    vec![Op::Write(c as u32 + 1), Op::Flush, Op::WriteAll(2 * c as u32), Op::Sample, Op::Flush]
}

pub fn run(cx: &Cx) -> Acc {
    let mut acc = Acc::new();
    // Single-threaded sub-checks first (the allocator count is global).
    {
        let mut sub = Acc::new();
        for (gzip, chunk) in [(None, 4096usize), (None, 65536), (Some(1), 4096), (Some(6), 65536)] {
            let case = json!({"sub": "release", "gzip": gzip, "chunk": chunk});
            sub.run_case(cx, "memory-release", &case, |_| check_release(gzip, chunk));
            sub.note("drop-body:memory-release", true, fingerprint(&case), || case.clone());
        }
        for level in [1u32, 6, 9] {
            for chunk in [1usize, 64, 4096, 65536] {
                for pre in [0usize, 10, 100_000] {
                    let case = json!({"sub": "gzip-bounded", "level": level, "chunk": chunk, "pre": pre});
                    sub.run_case(cx, "gzip-bounded", &case, |_| check_gzip_bounded(level, chunk, pre));
                    sub.note("drop-body:gzip-bounded", true, fingerprint(&case), || case.clone());
                }
            }
        }
        let n = sub.evals;
        sub.phase_info("sub-checks", n, true, "memory release (counting allocator) and gzip bounded-acceptance after the body is dropped");
        acc.merge(sub);
    }
    let max_n = cx.tier.pick(3usize, 4usize);
    let units: Vec<(Option<u32>, usize, usize)> = vec![(None, 2), (None, 3), (Some(1), 1), (Some(6), 5)]
        .into_iter()
        .flat_map(|(g, c)| (0..=max_n).map(move |n| (g, c, n)))
        .filter(|(g, _, n)| g.is_none() || *n < max_n)
        .collect();
    acc.merge(par_units(cx, "every-position", &units, true, "every base history of n operations with Abort or DropBody inserted at every position, followed by 5 more producer operations", |cx, &(gzip, c, n), acc| {
        enumerate_ops(c, n, &mut |ops| {
            for at in 0..=ops.len() {
                for fault in [Op::Abort, Op::DropBody] {
                    let mut v: Vec<Op> = ops[..at].to_vec();
                    v.push(Op::Sample);
                    v.push(fault);
                    v.push(Op::Sample);
                    v.extend_from_slice(&ops[at..]);
                    v.extend(producer_suffix(c));
                    // the body (or the writer, at the end) dropped normally and during a panic unwind
                    for unwinding in [false, true] {
                        let case = SCase {
                            gzip,
                            chunk: c,
                            payload: Payload::Hash,
                            ops: v.clone(),
                            extra_polls: 2,
                            unwind_body_drop: unwinding,
                            unwind_writer_drop: unwinding,
                            ..Default::default()
                        };
                        acc.run_case(cx, "every-position", &case, |acc| check(&case, acc));
                    }
                }
            }
        });
    }));
    let k = cx.tier.pick(1u64, 10u64);
    acc.merge(par_proptest(cx, "random-identity", 100_000 * k, || case_strategy(false, true, 30), |c, acc| check(c, acc)));
    acc.merge(par_proptest(cx, "random-gzip", 20_000 * k, || case_strategy(true, true, 24), |c, acc| check(c, acc)));
    acc.merge(crate::sched::run_for_c11(cx));
    acc
}

pub fn replay(cx: &Cx, phase: &str, case: &Value, acc: &mut Acc) -> Check {
    if phase.starts_with("sched") {
        return crate::sched::replay(cx, phase, case, acc, true);
    }
    if let Some(sub) = case.get("sub").and_then(|s| s.as_str()) {
        let gzip = case["gzip"].as_u64().map(|x| x as u32);
        let chunk = case["chunk"].as_u64().unwrap_or(4096) as usize;
        return match sub {
            "release" => check_release(gzip, chunk),
            _ => check_gzip_bounded(case["level"].as_u64().unwrap_or(6) as u32, chunk, case["pre"].as_u64().unwrap_or(0) as usize),
        };
    }
    let c: SCase = serde_json::from_value(case.clone()).map_err(|e| Fail {
        sig: "replay-decode".into(),
        msg: e.to_string(),
    })?;
    check(&c, acc)
}

pub fn health(acc: &Acc) -> Vec<String> {
    let mut v = Vec::new();
    for l in ["abort:identity", "abort:gzip", "drop-body:identity", "drop-body:gzip", "drop-body:memory-release"] {
        if acc.label(l) < 4 {
            v.push(format!("label {l} seen only {} times", acc.label(l)));
        }
    }
    v
}

#[allow(dead_code)]
fn _t(_: HarnessError, _: stream::SBody) {}
