#!/usr/bin/env python3
"""Regenerates the results block of DESIGN.md section 12.3 from mutants/RESULTS.json and seeded/*/meta.json."""
import json, glob, re
r = json.load(open("/verif/mutants/RESULTS.json"))
killed = [n for n, v in r.items() if v["status"] == "killed"]
surv = [n for n, v in r.items() if v["status"] in ("SURVIVED", "partially-killed")]
invalid = [n for n, v in r.items() if v["status"].startswith("invalid") or v["status"].startswith("patch")]
EQUIV = {
 "no-wake-on-flush-if-queue-nonempty": "equivalent: a waker is only ever stored while the queue is empty and every push takes it, so a non-empty queue implies no stored waker",
 "wake-before-queue-push": "equivalent: waking while still holding the lock is harmless, the woken consumer blocks on the lock until the chunk is pushed",
 "no-wake-on-drop-with-buffered-data": "equivalent (the mutant skips the wake only when more than one chunk is queued after the push; then a chunk was already queued before, and by the invariant above no waker is stored)",
 "dead-not-entered-after-failure": "equivalent: after a failed flush the chunker's buffer stays full, so every later write fails at the same place anyway",
}
out = []
out.append(f"**Hand-written mutants** ({len(r)} in the table; {len(invalid)} invalid because the repository's own 35 tests kill them, hang, or they do not compile; {len(killed)+len(surv)} valid): **{len(killed)} killed** by the quick tier of the targeted property, {len(surv)} survived.\n")
out.append("| mutant | targeted | caught by (quick tier) |\n|---|---|---|")
for n in sorted(killed):
    v = r[n]; out.append(f"| `{n}` | {', '.join(v['expected'])} | {', '.join(sorted(v['caught_by']))} |")
out.append("")
if surv:
    out.append("Survivors:\n")
    for n in surv:
        out.append(f"* `{n}` (targeted {', '.join(r[n]['expected'])}): {EQUIV.get(n, 'NOT YET EXPLAINED')}")
    out.append("")
out.append("Invalid (listed for completeness): " + ", ".join(f"`{n}`" for n in sorted(invalid)) + ".\n")
out.append("**Changes seeded by independent sub-agents** (eight rounds of one per property; each confirmed in a scratch worktree: demonstration passes on the original, existing suite passes with the change, demonstration fails with the change; then all twenty quick checks were run against it). Round 1 asked for a change that needs something specific to manifest; round 2 (`-r2`) told the sub-agent that a boundary-value-oriented property-based harness exists and asked for a defect that is harder to find (conjunctions, deeper state, less obvious values); round 3 (`-r3`) additionally listed the two defects already caught for the property and the dimensions the harness had been extended with, and asked for a trigger in a dimension it is still unlikely to vary; round 4 (`-r4`) repeated that with the three defects already caught and the grown list of dimensions; round 5 (`-r5`) once more, after counts, lengths and tag content had become generated dimensions; round 6 (`-r6`) after other headers, backlogs and cross-body state had; round 7 (`-r7`, nineteen changes) after repeated field lines, trusting consumers and unwinding drops had; round 8 (`-r8`, twenty changes, written in a later session by sub-agents that were given only the property text again) served as a regression round for the grown harness. A last batch of five (`-r9`: C03, C06, C09, C10, C12) followed in the same session. The last column is the result with the checks as committed (after the strengthening described in 12.1 / 12.4): where a change carries a `revalidated` record (tools/revalidate_seeded.py: own check plus every check that caught it at confirmation time, re-run sequentially against the final harness and the final /repo HEAD) that record is shown, otherwise the result of the confirmation run.\n")
out.append("| seeded for | what the change does (needs to manifest) | caught by |\n|---|---|---|")
DESC = {}
for f in sorted(glob.glob("/verif/seeded/*/meta.json"), key=lambda x: (x.split("/")[3][3:], x)):
    m = json.load(open(f)); sid = f.split("/")[3]
    notes = ""
    try:
        notes = open(f"/verif/seeded/{sid}/SUMMARY.txt").read().strip()
    except Exception:
        pass
    ok = all(m.get("confirmed", {}).values())
    own = sid[:3]
    NOTE = {
        "C02-r2": " - not a C02 violation as stated (the 200 is self-consistent); reported by C03",
        "C07-r3": " - **not detected, by design** (needs a stream that also misreports its size_hint; see 12.4)",
        "C11-r3": " - **not detected, by design** (equivalent under the stated schedule model; see 12.4)",
        "C01-r8": " - not a C01 violation as stated (entities that honour their contract get the announced bytes and then a spurious error, never a clean end with a different count; delivering more than announced needs an over-long entity, C07's domain); reported by C02, C07 and C12",
        "C08-r8": " - not a C08 violation as stated (bytes, order and the clean end are unchanged for a consumer that polls again); it is the lost end-of-stream wake-up C10 is about, and C10 reports it",
    }
    rv = m.get("revalidated", {})
    caught = rv["caught_by"] if "caught_by" in rv else m.get("caught_by", [])
    if rv.get("status"):
        notes = (notes or "") + " (re-validation: " + rv["status"][:80] + ")"
    if rv.get("inconclusive"):
        notes = (notes or "") + " (re-validation inconclusive for " + ", ".join(rv["inconclusive"]) + ")"
    if own not in caught:
        notes = (notes or "") + NOTE.get(sid, " - NOT CAUGHT BY ITS OWN CHECK")
    out.append(f"| {sid} | {notes or 'see seeded/' + sid + '/NOTES.md'}{'' if ok else ' (NOT CONFIRMED)'} | {', '.join(caught)} |")
out.append("")
p = "/verif/DESIGN.md"; s = open(p).read()
s = re.sub(r"<!-- RESULTS:BEGIN -->.*<!-- RESULTS:END -->", "<!-- RESULTS:BEGIN -->\n" + "\n".join(out).replace("\\", "\\\\") + "\n<!-- RESULTS:END -->", s, flags=re.S)
open(p, "w").write(s)
print("killed", len(killed), "survived", len(surv), "invalid", len(invalid))
