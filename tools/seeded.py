#!/usr/bin/env python3
"""Confirms a sub-agent's seeded change and runs the checks against it.

usage: seeded.py <ID> [--src /tmp/seed/<ID>] [--checks C01,C02|all] [--name NAME]

Steps (all in scratch copies under /tmp/vp-seed, never in /repo or /verif/evidence):
  1. fresh worktree of /repo HEAD; demo must PASS on the original code;
  2. apply the change; the repository's own suite must still pass; the demo must FAIL;
  3. build a scratch copy of the harness against the changed tree, run the quick checks;
  4. store patch.diff, the demonstration and meta.json in /verif/seeded/<name>/.
"""
import json, os, shutil, subprocess, sys, time

WORK = "/tmp/vp-seed"

def sh(cmd, cwd=None, timeout=None, env=None):
    e = dict(os.environ); e["CARGO_NET_OFFLINE"] = "true"
    if env: e.update(env)
    try:
        p = subprocess.run(cmd, shell=True, cwd=cwd, timeout=timeout, env=e, stdout=subprocess.PIPE, stderr=subprocess.STDOUT, text=True)
        return p.returncode, p.stdout
    except subprocess.TimeoutExpired:
        subprocess.run(f"pkill -f '{WORK}' || true", shell=True)
        return 124, "TIMEOUT"

def main():
    a = sys.argv[1:]
    pid = a[0]
    src = a[a.index("--src") + 1] if "--src" in a else f"/tmp/seed/{pid}"
    name = a[a.index("--name") + 1] if "--name" in a else pid
    checks = a[a.index("--checks") + 1] if "--checks" in a else "all"
    feature_dir = os.path.exists(f"{src}/tests/seeded_demo.rs") and "feature = \"dir\"" in open(f"{src}/tests/seeded_demo.rs").read()
    feat = "--features dir" if feature_dir else ""
    work = f"{WORK}/{name}"
    repo, harn, out = f"{work}/repo", f"{work}/harness", f"{work}/out"
    os.makedirs(work, exist_ok=True)
    sh(f"git -C /repo worktree remove --force {repo}; git -C /repo worktree prune")
    rc, o = sh(f"git -C /repo worktree add --detach {repo} HEAD")
    shutil.copy("/repo/Cargo.lock", f"{repo}/Cargo.lock")
    # share build output between seeded runs to save time and disk
    # own target directory per run (cargo names test binaries alike in different worktrees)
    tgt = {"CARGO_TARGET_DIR": f"{work}/target-repo"}
    meta = {"property": pid, "source": src, "ran": []}
    diff = open(f"{src}/seeded.diff").read()
    demo = f"{src}/tests/seeded_demo.rs"
    shutil.copy(demo, f"{repo}/tests/seeded_demo.rs")
    def log(cmd, rc, tail):
        meta["ran"].append({"cmd": cmd, "exit": rc, "tail": tail[-400:]})
    # 1. demo on the original
    cmd = f"cargo test --offline {feat} --test seeded_demo"
    rc, o = sh(cmd + " 2>&1 | tail -15", cwd=repo, timeout=1500, env=tgt)
    ok_orig = "test result: ok" in o and "FAILED" not in o
    log(cmd + "   # original code", 0 if ok_orig else 1, o)
    # 2. apply
    open(f"{work}/patch.diff", "w").write(diff)
    rc, o = sh(f"git apply {work}/patch.diff", cwd=repo)
    if rc != 0:
        print("PATCH DOES NOT APPLY", o); meta["status"] = "patch does not apply"; json.dump(meta, open(f"{work}/meta.json", "w"), indent=1); return 1
    cmd = "timeout 600 cargo test --workspace --no-fail-fast --offline"
    os.rename(f"{repo}/tests/seeded_demo.rs", f"{work}/seeded_demo.rs.aside")
    rc, o = sh(cmd + " 2>&1 | grep -E '^test result|FAILED|^error|Running'", cwd=repo, timeout=1500, env=tgt)
    os.rename(f"{work}/seeded_demo.rs.aside", f"{repo}/tests/seeded_demo.rs")
    # the existing suite = everything except the demo target
    lines = o.splitlines()
    suite_ok = True; cur = ""
    passed = 0
    for l in lines:
        if "Running" in l or "Doc-tests" in l: cur = l
        if l.startswith("test result:"):
            n = int(l.split(" passed")[0].split()[-1])
            if "seeded_demo" in cur: continue
            if "ok." in l: passed += n
            else: suite_ok = False
    suite_ok = suite_ok and passed >= 35 and "error" not in o
    log(cmd + "   # with the change (existing suite only)", 0 if suite_ok else 1, o)
    if feature_dir:
        rc2, o2 = sh("timeout 600 cargo test --offline --features dir --lib 2>&1 | grep -E '^test result|FAILED|^error'", cwd=repo, timeout=1500, env=tgt)
        suite_ok = suite_ok and "test result: ok" in o2 and "FAILED" not in o2
        log("cargo test --offline --features dir --lib   # with the change", 0 if suite_ok else 1, o2)
    cmd = f"cargo test --offline {feat} --test seeded_demo"
    rc, o = sh("timeout 600 " + cmd + " 2>&1 | tail -25", cwd=repo, timeout=1500, env=tgt)
    demo_fails = "FAILED" in o or "panicked" in o or rc == 124 or "TIMEOUT" in o
    log(cmd + "   # with the change", 1 if demo_fails else 0, o)
    meta["confirmed"] = {"demo_passes_on_original": ok_orig, "existing_suite_passes_with_change": suite_ok, "demo_fails_with_change": demo_fails}
    print("confirmed:", meta["confirmed"])
    # 3. harness
    sh(f"rsync -a --delete --exclude target /verif/harness/ {harn}/")
    s = open(f"{harn}/Cargo.toml").read().replace('path = "/repo"', f'path = "{repo}"')
    open(f"{harn}/Cargo.toml", "w").write(s)
    os.remove(f"{repo}/tests/seeded_demo.rs")
    # own target directory per run: concurrent runs must never execute each other's binary
    henv = {"CARGO_TARGET_DIR": f"{work}/target-harness"}
    rc, o = sh("(cargo build --release --offline && cargo build --profile unchecked --offline) 2>&1 | grep -E '^error' -A8", cwd=harn, timeout=1800, env=henv)
    vp = f"{work}/target-harness/release/vp"
    if "error" in o or not os.path.exists(vp):
        print("HARNESS BUILD FAILED", o); meta["status"] = "harness does not build against the change"; meta["build_error"] = o[-600:]
    else:
        allp = [json.loads(l)["id"] for l in open("/verif/properties.jsonl")]
        todo = allp if checks == "all" else checks.split(",")
        res = {}
        for p in todo:
            env = {"VP_OUT_DIR": out, "VP_SCRATCH_DIR": f"{work}/scratch", "VERIF_SEED": os.environ.get("VERIF_SEED", "0")}
            t0 = time.time()
            rc, o = sh(f"{vp} {p} quick", cwd=harn, timeout=1200, env=env)
            first = next((l[:400] for l in o.splitlines() if l.startswith("--- ")), "")
            res[p] = {"exit": rc, "first_violation": first, "seconds": round(time.time() - t0, 1)}
            print(p, rc, first[:160], flush=True)
        meta["checks_quick"] = res
        meta["caught_by"] = sorted(p for p, r in res.items() if r["exit"] == 1)
        meta["inconclusive"] = sorted(p for p, r in res.items() if r["exit"] not in (0, 1))
    # 4. store
    dest = f"/verif/seeded/{name}"
    os.makedirs(dest, exist_ok=True)
    shutil.copy(f"{work}/patch.diff", f"{dest}/patch.diff")
    shutil.copy(demo, f"{dest}/seeded_demo.rs")
    if os.path.exists(f"{src}/NOTES.md"):
        shutil.copy(f"{src}/NOTES.md", f"{dest}/NOTES.md")
        meta["needs_to_manifest"] = "see NOTES.md (written by the sub-agent that made the change)"
    json.dump(meta, open(f"{dest}/meta.json", "w"), indent=1)
    sh(f"git -C /repo worktree remove --force {repo}; rm -rf {work}")
    print("caught by:", meta.get("caught_by"), "inconclusive:", meta.get("inconclusive"))
    return 0

if __name__ == "__main__":
    sys.exit(main())
