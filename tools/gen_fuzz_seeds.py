#!/usr/bin/env python3
"""Writes the committed libFuzzer seed corpora and dictionaries (formats: harness/src/fuzz.rs)."""
import os, hashlib
base = "/verif/fuzz"
def put(target, data: bytes):
    d = f"{base}/seeds/{target}"; os.makedirs(d, exist_ok=True)
    open(f"{d}/{hashlib.sha1(data).hexdigest()[:16]}", "wb").write(data)
NAMES = ["range", "if-range", "if-match", "if-none-match", "if-modified-since", "if-unmodified-since"]
def serve(lensel, etag, mtime, plan, hdrflag, method, headers):
    b = bytes([lensel, etag, mtime, len(plan)]) + bytes(plan) + bytes([hdrflag, method])
    for name, val in headers:
        b += bytes([NAMES.index(name)]) + val + b"\0"
    return b
D = b"Sun, 06 Nov 1994 08:49:37 GMT"; L = b"Sun, 06 Nov 1994 09:49:37 GMT"
reqs = [
 [], [("range", b"bytes=1-3")], [("range", b"bytes=0-1, 3-4")], [("range", b"bytes=500-")], [("range", b"bytes=-5")], [("range", b"bytes=0-18446744073709551615")],
 [("if-match", b'"foo"')], [("if-match", b'"bar"')], [("if-match", b"*")], [("if-none-match", b'W/"foo"')], [("if-none-match", b'"a, b", "foo"')],
 [("if-modified-since", D)], [("if-unmodified-since", D)], [("if-modified-since", L), ("if-none-match", b'"bar"')],
 [("range", b"bytes=1-3"), ("if-range", b'"foo"')], [("range", b"bytes=1-3"), ("if-range", D)], [("range", b"bytes=1-3"), ("if-range", b'W/"foo"')],
 [("range", b"bytes=1-3"), ("range", b"bytes=5-6")], [("if-match", b"\x80\xff")], [("range", b"bytes=0-0,-1"), ("if-match", b'"foo"'), ("if-unmodified-since", L)],
]
for i, h in enumerate(reqs):
    for lensel in (4, 0, 12, 8):          # 240, 0, u64::MAX, 2^32
        put("serve_total", serve(lensel, 1 + 3 * 0, 2, [5], 1, 0, h))
    put("serve_total", serve(4, 2, 3, [0, 4, 3], 0, 200 + i, h))   # weak tag, other method
for v in [b"bytes=0-499", b"bytes=500-999", b"bytes=-500", b"bytes=9500-", b"bytes=0-0,-1", b"bytes=500-600, 601-999", b"bytes=500-700, 601-999",
          b"bytes=10000-", b"bytes=0-499,10000-", b"bytes=-1", b"bytes=0-0", b"bytes=0-", b"bytes=0-10000", b"\xff", b"bytes=-0", b"bytes=+1-2",
          b"bytes=18446744073709551615-18446744073709551616", b"items=1-2", b"bytes=1-2 ,3-4", b"bytes=5-3"]:
    for sel in (9, 1, 140, 135):
        put("range_diff", bytes([sel]) + v)
for v in [b"gzip", b"gzip;q=0.001", b"gzip;q=0", b"", b"*", b"gzip;q=0, *", b"identity=q=0, *", b"identity;q=0.5, gzip;q=1.0", b"identity;q=1.0, gzip;q=0.5", b"*;q=0",
          b"gzip ; q=0.5 , identity;q=0.5", b"br, deflate", b"x-gzip", b"gzip;q=1.000", b"identity;q=0, *;q=0.2"]:
    for lvl, m in ((6, 1), (0, 17), (9, 130), (1, 0)):
        put("accept_encoding", bytes([lvl, m]) + v)
# stream_ops: mode, chunk idx, payload idx, extra, then ops (op byte [+ size byte])
ops_sets = [
 [0, 1, 7], [0, 3, 0, 3], [4, 5, 9, 0, 1, 10], [0, 1, 11, 0, 1, 7, 11], [0, 2, 14, 0, 1, 7], [0, 2, 9, 15, 0, 4, 7, 0, 1], [4, 6, 9, 4, 6, 9], [12, 1, 0, 1, 12, 2, 13],
 [0, 1, 9, 14, 13, 0, 1], [7, 0, 4, 8, 15, 4, 2, 7],
]
for ops in ops_sets:
    for mode, ci in ((1, 3), (2, 0), (0, 0), (3, 4), (6, 7), (1, 5)):
        put("stream_ops", bytes([mode, ci, 0, 2] + ops))

# serve_sem: same format as serve_total; requests that reach If-Range / multipart / HEAD logic
sem_reqs = [
 [("range", b"bytes=0-1, 3-4")], [("range", b"bytes=0-0,-1")], [("range", b"bytes=1-3"), ("if-range", b'"foo"')], [("range", b"bytes=1-3, 5-6"), ("if-range", b'"foo"')],
 [("range", b"bytes=1-3"), ("if-range", b'W/"foo"')], [("range", b"bytes=1-3"), ("if-range", D)], [("range", b"bytes=1-3,7-9"), ("if-range", L)], [("range", b"bytes=1-3"), ("if-range", b'"fo"')],
 [("range", b"bytes=0-0, 2-2, 4-4, 6-6")], [("range", b"bytes=-1, 0-0")], [("range", b"bytes=500-")], [], [("if-none-match", b'"foo"'), ("range", b"bytes=0-1, 3-4")],
]
for h in sem_reqs:
    for lensel, et in ((4, 1), (3, 2), (12, 1), (8, 0)):
        put("serve_sem", serve(lensel, et, 2, [5], 1, 0, h))
    put("serve_sem", serve(4, 1, 3, [0, 4, 3], 0, 0, h))
# cond_diff: etag sel, mtime sel, flags, then one field per set flag bit (IM, INM, IMS, IUS, Range)
P = b"Sun, 06 Nov 1994 08:49:36 GMT"; N = b"Sun, 06 Nov 1994 08:49:38 GMT"; RFC850 = b"Sunday, 06-Nov-94 08:49:37 GMT"; ASC = b"Sun Nov  6 08:49:37 1994"
def cond(et, mt, im=None, inm=None, ims=None, ius=None, rng=None, head=False):
    flags = 0; body = b""
    for bit, v in ((1, im), (2, inm), (4, ims), (8, ius), (16, rng)):
        if v is not None:
            flags |= bit; body += v + b"\0"
    return bytes([et, mt, flags | (32 if head else 0)]) + body
tags = [b'"foo"', b'W/"foo"', b'"bar"', b"*", b'"bar", "foo"', b'"a, b", W/"foo"', b'"bar",\t"foo"']
dates = [D, P, N, RFC850, ASC]
for et in (0, 1, 2, 9):
    for mt in (0, 1, 3):
        for t in tags[:4]:
            put("cond_diff", cond(et, mt, im=t)); put("cond_diff", cond(et, mt, inm=t))
        for d in dates[:3]:
            put("cond_diff", cond(et, mt, ims=d)); put("cond_diff", cond(et, mt, ius=d))
for t in tags:
    for d in dates:
        put("cond_diff", cond(1, 1, im=t, ius=d)); put("cond_diff", cond(1, 1, inm=t, ims=d, head=True)); put("cond_diff", cond(2, 2, im=t, inm=t, ims=d, ius=d, rng=b"bytes=0-1"))
# fsdir_path: mode byte, Accept-Encoding field, NUL, then the path
for path in [b"a", b"sub/a", b"c", b"sub", b"..", b"sub/../a", b"/a", b"link", b"a\0", b"...", b"..a", b"a..", b"d", b"e", b"f", b"g", b"b", b"b.gz", b"sub/", b"./a", b"sub//a", b"", b"a/x", b"\xc3\xa9", b"....gz", b"sub/.gz"]:
    for m, ae in ((0, b""), (5, b""), (1, b""), (7, b"gzip;q=0.5, identity;q=0.6"), (7, b"*"), (3, b"gzip")):
        put("fsdir_path", bytes([m]) + ae + b"\0" + path)
os.makedirs(f"{base}/dict", exist_ok=True)
open(f"{base}/dict/serve_total.dict", "w").write("\n".join(['"bytes="', '"W/\\""', '"\\""', '"*"', '", "', '"-"', '","', '" GMT"', '"Sun, 06 Nov 1994 08:49:37 GMT"', '"18446744073709551615"', '"18446744073709551616"', '"\\x00"', '"foo"', '"a, b"']) + "\n")
open(f"{base}/dict/range_diff.dict", "w").write("\n".join(['"bytes="', '"-"', '","', '", "', '"18446744073709551615"', '"18446744073709551616"', '"4294967296"', '"9223372036854775808"', '"0"', '"\\x00"']) + "\n")
open(f"{base}/dict/accept_encoding.dict", "w").write("\n".join(['"gzip"', '"identity"', '"*"', '";q="', '"q="', '"0."', '"1."', '"0.001"', '"1.000"', '", "', '","', '";"', '"br"', '"\\x00"']) + "\n")
import shutil
shutil.copy(f"{base}/dict/serve_total.dict", f"{base}/dict/serve_sem.dict")
open(f"{base}/dict/cond_diff.dict", "w").write("\n".join(['"W/\\""', '"\\""', '"*"', '", "', '","', '" GMT"', '"Sun, 06 Nov 1994 08:49:37 GMT"', '"Sun, 06 Nov 1994 08:49:36 GMT"', '"Sun, 06 Nov 1994 08:49:38 GMT"', '"Sunday, 06-Nov-94 08:49:37 GMT"', '"Sun Nov  6 08:49:37 1994"', '"\\x00"', '"\\"foo\\""', '"W/\\"foo\\""', '"\\"a, b\\""', '"\\"bar\\""', '"bytes=0-1"', '"Mon, 07 Nov 1994 08:49:37 GMT"', '"Thu, 01 Jan 1970 00:00:00 GMT"']) + "\n")
open(f"{base}/dict/fsdir_path.dict", "w").write("\n".join(['"/"', '".."', '"."', '"..."', '".gz"', '"sub"', '"link"', '"secret"', '"a"', '"../"', '"/.."', '"\\x00"', '"gzip"', '"identity"', '";q=0"', '"b.gz"', '"sub/a"']) + "\n")
print({t: len(os.listdir(f"{base}/seeds/{t}")) for t in os.listdir(f"{base}/seeds")})
