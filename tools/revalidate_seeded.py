#!/usr/bin/env python3
"""Re-runs the committed checks against every stored seeded change (seeded/*/patch.diff).

usage: revalidate_seeded.py [--shard i/n] [--all-checks] [NAME ...]

For each stored change: a scratch worktree of /repo HEAD gets the patch, a scratch copy of the
harness is built against it (own target directory per shard, so concurrent shards never run each
other's binary), and the quick check of the property the change was seeded for plus every check
that caught it when it was first confirmed is run. The result is stored in the change's meta.json
under "revalidated" (with the /repo and /verif commits it was obtained on); DESIGN.md 12.3 is
generated from it. Nothing under /repo or /verif/evidence is touched.
"""
import glob, json, os, shutil, subprocess, sys, time

def sh(cmd, cwd=None, timeout=None, env=None):
    e = dict(os.environ); e["CARGO_NET_OFFLINE"] = "true"
    if env: e.update(env)
    try:
        p = subprocess.run(cmd, shell=True, cwd=cwd, timeout=timeout, env=e, stdout=subprocess.PIPE, stderr=subprocess.STDOUT, text=True)
        return p.returncode, p.stdout
    except subprocess.TimeoutExpired:
        return 124, "TIMEOUT"

def main():
    a = sys.argv[1:]
    shard, nshards = 0, 1
    if "--shard" in a:
        i = a.index("--shard"); shard, nshards = map(int, a[i + 1].split("/")); del a[i:i + 2]
    all_checks = "--all-checks" in a
    a = [x for x in a if x != "--all-checks"]
    names = a or sorted(os.path.basename(os.path.dirname(p)) for p in glob.glob("/verif/seeded/*/patch.diff"))
    names = [n for k, n in enumerate(names) if k % nshards == shard]
    work = f"/tmp/vp-reval-{shard}"
    repo, harn = f"{work}/repo", f"{work}/harness"
    shutil.rmtree(work, ignore_errors=True); os.makedirs(work)
    sh("git -C /repo worktree prune")
    rc, o = sh(f"git -C /repo worktree add --detach {repo} HEAD")
    if rc != 0:
        print("cannot create worktree:", o); sys.exit(2)
    shutil.copy("/repo/Cargo.lock", f"{repo}/Cargo.lock")
    sh(f"rsync -a --delete --exclude target /verif/harness/ {harn}/")
    s = open(f"{harn}/Cargo.toml").read().replace('path = "/repo"', f'path = "{repo}"')
    open(f"{harn}/Cargo.toml", "w").write(s)
    henv = {"CARGO_TARGET_DIR": f"{work}/target"}
    repo_head = sh("git -C /repo rev-parse --short HEAD")[1].strip()
    verif_head = sh("git -C /verif rev-parse --short HEAD")[1].strip()
    allp = [json.loads(l)["id"] for l in open("/verif/properties.jsonl")]
    for name in names:
        d = f"/verif/seeded/{name}"
        meta = json.load(open(f"{d}/meta.json"))
        own = name[:3]
        sh("git checkout -q -- . && git clean -fdq -e Cargo.lock", cwd=repo)
        rc, o = sh(f"git apply {d}/patch.diff", cwd=repo)
        rv = {"repo_head": repo_head, "verif_head": verif_head, "date": time.strftime("%Y-%m-%d %H:%M")}
        if rc != 0:
            rv["status"] = "patch no longer applies: " + o.strip()[-200:]
            print(name, rv["status"], flush=True)
        else:
            rc, o = sh("(cargo build --release --offline && cargo build --profile unchecked --offline) 2>&1 | grep -E '^error' -A8", cwd=harn, timeout=1800, env=henv)
            vp = f"{work}/target/release/vp"
            if "error" in o or not os.path.exists(vp):
                rv["status"] = "harness does not build against the change: " + o[-300:]
                print(name, "BUILD FAILED", flush=True)
            else:
                todo = allp if all_checks else sorted(set([own] + meta.get("caught_by", [])))
                res = {}
                for p in todo:
                    env = {"VP_OUT_DIR": f"{work}/out", "VP_EVIDENCE_DIR": f"{work}/ev", "VP_SCRATCH_DIR": f"{work}/scratch", "VERIF_SEED": os.environ.get("VERIF_SEED", "0")}
                    t0 = time.time()
                    rc, o = sh(f"{vp} {p} quick", cwd=harn, timeout=1500, env=env)
                    first = next((l[:300] for l in o.splitlines() if l.startswith("--- ")), "")
                    res[p] = {"exit": rc, "first_violation": first, "seconds": round(time.time() - t0, 1)}
                rv["checks_quick"] = res
                rv["caught_by"] = sorted(p for p, r in res.items() if r["exit"] == 1)
                rv["inconclusive"] = sorted(p for p, r in res.items() if r["exit"] not in (0, 1))
                print(name, "caught by", rv["caught_by"], "inconclusive", rv["inconclusive"], "(first run:", meta.get("caught_by"), ")", flush=True)
        meta["revalidated"] = rv
        json.dump(meta, open(f"{d}/meta.json", "w"), indent=1)
    sh(f"git -C /repo worktree remove --force {repo}; rm -rf {work}; git -C /repo worktree prune")

main()
