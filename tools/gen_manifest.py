#!/usr/bin/env python3
"""Generates /verif/MANIFEST.json from the table below (single source of truth)."""
import json, sys
ALL = [json.loads(l)["id"] for l in open("/verif/properties.jsonl")]
# id -> (category, text, note, technique, design_ref)
CHECKS = {
 "C01": ("exploration", "Generated-input search (proptest + exhaustive small sweep) over requests x entities x chunkings; framing oracle compares Content-Length and the initial exact size hint with the bytes actually drained. Exploration is the right level: the property is universal over an unbounded input product and has an executable oracle.",
         "Trusts the harness entity (contract-honouring, position-hashed content), the drain loop and the http/http-body crates. Bodies over 1 MiB are drained as a prefix.", "property-based testing (proptest) + bounded-exhaustive enumeration, invariant oracle on drain traces", "6/C01"),
 "C02": ("exploration", "Same case space as C01; round-trip oracle: the body must equal the position-hashed entity content that status and Content-Range name (200, single 206, each multipart part).",
         "Trusts the harness entity and the strict Content-Range / multipart parsers of the harness.", "property-based testing (proptest) + bounded-exhaustive enumeration, round-trip oracle against position-hashed content", "6/C02"),
 "C03": ("exploration", "Differential test of Range resolution against an independent u128 reference resolver that returns the set of outcomes the statement permits; exhaustive for L<=8 with positions 0..=L+2 and for the boundary-value product, proptest for threshold sets and near-miss/garbage headers.",
         "Lenient-but-RFC-grammatical header forms are accepted either way (listed in evidence as tolerated). L=0 is outside the statement.", "differential testing vs. reference model: bounded-exhaustive enumeration + proptest", "6/C03"),
 "C04": ("exploration", "Differential test against an independent evaluator of the statement (own tag-list splitter, strong/weak comparison, date comparison on the Last-Modified second); the categorical product of the quantifier is enumerated completely on representative lists, every list of 1-3 tags is crossed with all date combinations, proptest samples the rest; 'processing continues' is checked metamorphically against the unconditional request.",
         "Premise: well-formed validators, modification times not in the future. HTTP-dates parsed with the httpdate crate.", "differential testing vs. reference model: exhaustive categorical product + proptest", "6/C04"),
 "C05": ("exploration", "Metamorphic triples (request / without If-Range / without If-Range and Range) over an enumerated product of If-Range variants (identical, W/-toggled, prefix/suffix/case variants, dates before/equal/after in three formats, garbage) x Range shapes x GET/HEAD, plus proptest.",
         "Entity headers are not compared here (C06/C14).", "metamorphic property-based testing: enumerated product + proptest", "6/C05"),
 "C14": ("exploration", "Two-request histories: header invariants on the first response and the cache-friendly answer to a second request echoing each of the 32 subsets of served validators; enumerated over ETag kinds x 9 modification times (epoch, sub-second, future) x header sets x 6 first-request shapes, plus proptest.",
         "For future modification times the round trip is demanded only when the served Date did not move between the two requests (re-run up to 3 times).", "stateful (history) property-based testing: enumerated histories + proptest", "6/C14"),
 "C06": ("exploration", "Generated multi-range requests (2-8 ranges, overlapping/adjacent/duplicate/out-of-order, entity lengths up to 2^64-1, entity headers, If-Range) checked with a strict length-driven multipart parser, the reference resolver and position-hashed content; huge last parts checked on a prefix plus arithmetic.",
         "Trusts the harness multipart parser (written from RFC 2046/7233).", "property-based testing (proptest) with strict parser oracle", "6/C06"),
 "C07": ("fault_enumeration", "Every fault (early end, error, extra byte, extra chunk) at every chunk position of every composition of ranges of length 1..8 into <=4 chunks, for 200, single 206 and each part of 2-3 part multipart responses, with Pending/empty fillers; plus random longer cases. Compared with the fault-free twin.",
         "Harness entity streams are fused; the consumer polls until a terminal event.", "exhaustive fault injection + proptest, differential against fault-free twin", "6/C07"),
 "C08": ("exploration", "Model-based stateful testing of streaming_body (identity): every history of <= 4 operations over a 17-operation alphabet for chunk sizes {1,2,3,4,7} is enumerated, longer histories and chunk sizes up to 65536 by proptest; oracle is an in-memory model of the accepted bytes (prefix invariant after every step, flush visibility, non-empty frames, clean end).",
         "Single-threaded interleaving of producer operations and consumer polls; schedules are C10's subject.", "stateful model-based testing: bounded-exhaustive histories + proptest", "6/C08"),
 "C09": ("exploration", "The same history generator with gzip negotiated (levels 1-9, chunk sizes 1..65536, four payload classes): the body must be exactly one valid gzip member decoding to the bytes written, and after every flush a prefix decoder must reproduce everything written so far. Oracle: own RFC 1951/1952 decoder, cross-checked against flate2 on every case.",
         "One known finding (incomplete sync flush of the pinned flate2 after a large write) is listed in KNOWN_FINDINGS.txt and matched by an exact signature.", "stateful model-based testing with independent decoder oracle: bounded-exhaustive histories + proptest", "6/C09"),
 "C10": ("exploration", "Systematic schedule exploration of the real chunker code: hook H1 (instrumented mutex) lets a harness scheduler run producer and consumer as two threads of which exactly one runs, switching only at lock acquisitions, wake() and operation boundaries; every schedule within a preemption bound is enumerated by stateless DFS for all short producer programs x consumer configurations (same/fresh waker, spurious polls, sampling), and proptest draws long programs with arbitrary choice vectors. History invariants: no quiescent state with undelivered data/end/abort, in-order complete delivery, bounded polls after the writer is gone.",
         "Granularity lock/wake/operation boundary: complete for this code because all shared state is behind the one instrumented mutex. No weak-memory effects. Needs cargo feature verif-hooks.", "schedule enumeration (bounded-preemption DFS) + proptest over schedules, history-invariant oracle", "6/C10"),
 "C11": ("exploration", "Abort or body-drop inserted at every position of every base history of <= 3 operations (identity and gzip) followed by five more producer operations, proptest for long histories, plus memory-release measurement with a counting allocator and the gzip bounded-acceptance sub-check; the interleaved part (abort in producer programs under the C10 scheduler) is merged in.",
         "A flush with nothing to flush may succeed after the body is gone. Live-heap measurement is single-threaded.", "stateful model-based testing: exhaustive fault positions + proptest + schedule enumeration", "6/C11"),
 "C12": ("exploration", "Per-step monitor (size hint brackets the bytes still to come, exact where required; end-of-stream flag never followed by data or error) evaluated on the traces of the serve, fault, streaming and Body::from engines.",
         "Entity contract: exact bytes or an early Err. Streaming-body traces are added by the stream engine.", "property-based testing: retrospective invariant over generated drain traces", "6/C12"),
 "C13": ("exploration", "Random + grammar-derived near-miss + boundary-number request generation (all methods, repeated headers, arbitrary HeaderValue bytes) against entities of length 0..2^64-1; oracle: no panic in serve or drain, status set, 405 rule, entity untouched for other methods.",
         "Inputs limited to what http::HeaderValue / http::Method accept.", "property-based testing (proptest) with totality oracle", "6/C13"),
 "C15": ("exploration", "Metamorphic GET<->HEAD pairs over the full serve request generator and over streaming_body (Request and Parts): same status and headers, empty HEAD body, entity never read.",
         "Date is excluded from the comparison (clock-derived).", "metamorphic property-based testing (proptest)", "6/C15"),
 "C16": ("exploration", "Differential test of should_gzip against an independent evaluator (qualities in thousandths): every list of 1-3 elements (thorough 4) over 6 codings x 11 weight spellings with rotating whitespace patterns is enumerated; proptest for longer lists/whitespace; arbitrary bytes for the no-panic clause.",
         "Lower-case codings and q only (the stated domain); a coding listed twice admits either occurrence.", "differential testing vs. reference model: exhaustive enumeration + proptest", "6/C16"),
 "C17": ("exploration", "streaming_body built from generated Accept-Encoding x level 0..9 x chunk size x method x Request/Parts; oracle ties the Content-Encoding header to should_gzip && level>0 and to the actual coding of the drained body (own gzip decoder), plus Vary and writer presence.",
         "gzip level within the documented 0..=9.", "property-based testing (proptest) + enumerated core, header <-> body consistency oracle", "6/C17"),
 "C18": ("fault_enumeration", "Real files: every boundary-aligned range of 7 file sizes read through get_range and through serve(), with the file truncated to each interesting length before each poll index (every truncation point x every poll), growth after construction, random sizes/ranges/truncations by proptest; metadata and ETag under re-open, four mtime changes, append, same-length same-mtime replacement; non-regular files. Oracle: std::fs bytes and Metadata, non-empty chunks, error instead of a short clean end, harness-owned poll budget.",
         "Sandbox filesystem semantics (ext4), running as root. ETag difference demanded only when std::fs::Metadata reports the change.", "fault enumeration (truncation point x poll index) + differential vs. std::fs + proptest", "6/C18"),
 "C19": ("exploration", "Exhaustive path enumeration (1-4 segments over 10 segment kinds, leading/trailing slash, NUL injection) x 5 Accept-Encoding values x auto_gzip on/off against a generated directory tree with .gz siblings, a .gz directory, dot-heavy names, and a secret file outside the base reachable only through a symlink. Oracle: reference path validator + std::fs device/inode identity or equal io::ErrorKind + reference gzip negotiation.",
         "Empty path checked for containment only. Symlinks are followed as documented.", "differential testing vs. reference model and std::fs: exhaustive enumeration", "6/C19"),
 "C20": ("exploration", "Every body explored by the other engines polled 1-4 more times after each kind of terminal event (clean end, entity error, too short, too long) at every fault position of the C07 enumeration: no panic, no data.",
         "Entity streams are fused (the statement's proviso).", "property-based testing + exhaustive fault enumeration with extra polls", "6/C20"),
}
NOT_YET = "check under construction in this session; will be claimed once built (see DESIGN.md section 6)"
m = {
 "version": 1,
 "setup_cmd": "cd /verif/harness && cargo build --release --offline && cargo build --profile unchecked --offline",
 "hooks": {"guard": "cargo feature `verif-hooks` of http-serve (off by default)",
           "enable": "the harness crate /verif/harness depends on http-serve = { path = \"/repo\", features = [\"dir\", \"verif-hooks\"] }",
           "baseline_off_cmd": "cd /repo && cargo test --workspace --no-fail-fast --offline",
           "source_commits": ["80df90e"], "add_only": True},
 "engines": [{"name": "vp", "path": "/verif/harness", "serves_properties": sorted(CHECKS), "kind_free_text": "Rust harness (proptest + bounded-exhaustive enumerators + reference models + controlled scheduler) driven by /verif/check; built twice (debug assertions/overflow checks on, and off)"},
             {"name": "vp-fuzz", "path": "/verif/fuzz", "serves_properties": ["C01", "C02", "C03", "C04", "C05", "C06", "C08", "C09", "C11", "C12", "C13", "C15", "C16", "C17", "C19", "C20"], "kind_free_text": "cargo-fuzz (libFuzzer) targets calling the harness oracles; seeds replayed in the quick tier, campaigns in the thorough tier"}],
 "checks": [], "not_applicable": [],
 "notes": "Exit codes of every command: 0 held, 1 VIOLATION line printed, 2 inconclusive (build failure, watchdog, generator health). VERIF_SEED and VERIF_TIER are honoured. Known findings: /verif/KNOWN_FINDINGS.txt.",
}
for pid in ALL:
    if pid in CHECKS:
        cat, text, note, tech, ref = CHECKS[pid]
        m["checks"].append({"property_id": pid, "quick_cmd": f"./check {pid} quick", "thorough_cmd": f"./check {pid} thorough",
            "evidence_file": f"/verif/evidence/{pid}.json", "replay_cmd_template": f"./check {pid} --replay {{path}}", "engine": "vp",
            "level_claimed": {"category": cat, "text": text, "design_ref": f"DESIGN.md section {ref}"}, "level_note": note, "technique": tech})
    else:
        m["not_applicable"].append({"property_id": pid, "reason": NOT_YET})
json.dump(m, open("/verif/MANIFEST.json", "w"), indent=1)
print("claimed:", len(m["checks"]), "not yet:", len(m["not_applicable"]))
