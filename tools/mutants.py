#!/usr/bin/env python3
"""Sensitivity self-test: applies hand-written mutants of http-serve (each a realistic edit that
compiles) to a scratch copy of /repo, confirms the repository's own tests still pass, runs the
quick tier of the targeted properties from a scratch copy of the harness and records which
checks report a VIOLATION. Nothing under /repo or /verif/evidence is touched.

usage: mutants.py [--only NAME[,NAME..]] [--all-checks] [--keep]
results: /verif/mutants/RESULTS.json, one diff per mutant in /verif/mutants/<name>.diff
"""
import json, os, shutil, subprocess, sys, time

WORK = "/tmp/vp-mut"
REPO = f"{WORK}/repo"
HARN = f"{WORK}/harness"
OUT = f"{WORK}/out"

# (name, file, old, new, [properties expected to catch it])
M = []
def m(name, file, old, new, props):
    M.append((name, file, old, new, props))

# ---- range.rs
m("revert-D1-overflow", "src/range.rs", ".saturating_add(1), // last-byte-pos may be u64::MAX.", "+ 1,", ["C03", "C13"])
m("revert-D2-suffix-zero", "src/range.rs", "            if last == 0 {\n                continue; // a zero suffix-length selects nothing; this range is not satisfiable.\n            }\n", "", ["C03"])
m("revert-D3-suffix-ge-len", "src/range.rs", "            let last = cmp::min(last, len);\n", "            if last >= len {\n                continue;\n            }\n", ["C03"])
m("revert-D8-plus-sign", "src/range.rs", "    if !s.bytes().all(|b| b.is_ascii_digit()) {\n        return Err(());\n    }\n", "", ["C03"])
m("range-empty-allowed", "src/range.rs", "            if first >= end {", "            if first > end {", ["C03", "C02"])
m("range-suffix-wrong-end", "src/range.rs", "ranges.push((len - last)..len);", "ranges.push(0..last);", ["C03"])
m("range-only-first-spec", "src/range.rs", "            ranges.push(first..end);\n", "            ranges.push(first..end);\n            if ranges.len() == 2 {\n                break;\n            }\n", ["C03", "C06"])
m("range-sorted", "src/range.rs", "    if !ranges.is_empty() {\n        return", "    ranges.sort_by_key(|r| r.start);\n    if !ranges.is_empty() {\n        return", ["C03", "C06"])
m("range-garbage-416", "src/range.rs", "            None => return ResolvedRanges::None, // unparseable.", "            None => return ResolvedRanges::NotSatisfiable, // unparseable.", ["C03"])
m("range-first-eq-len-ok", "src/range.rs", "                len // no end specified; use EOF.", "                cmp::max(len, first + 1).min(len + 1) // no end specified; use EOF.", ["C03", "C02"])
# ---- serving.rs
m("multipart-threshold-quarter", "src/serving.rs", "if matches!(est_len, Some(l) if l < len) {", "if matches!(est_len, Some(l) if l < len / 4) {", ["C03"])
m("content-range-end-exclusive", "src/serving.rs", "                        range.start,\n                        range.end - 1,\n                        len\n                    ),", "                        range.start,\n                        range.end,\n                        len\n                    ),", ["C02", "C03"])
m("multipart-trailer-not-counted", "src/serving.rs", "        .checked_add(crate::as_u64(PART_TRAILER.len()))", "        .checked_add(0)", ["C01", "C06"])
m("multipart-remaining-drift", "src/serving.rs", "                this.remaining -= crate::as_u64(v.len());", "                this.remaining -= crate::as_u64(v.len()).min(1);", ["C12"])
m("multipart-part-range-end", "src/serving.rs", "            r.start,\n            r.end - 1,\n            len\n        )\n        .unwrap();", "            r.start,\n            r.end,\n            len\n        )\n        .unwrap();", ["C06", "C02"])
m("multipart-entity-headers-with-if-range", "src/serving.rs", "let each_part_hdrs = include_entity_headers_on_range.then(|| {", "let each_part_hdrs = true.then(|| {", ["C06"])
m("if-range-weak-compare", "src/serving.rs", "if etag::strong_eq(if_range, some_etag.as_bytes()) {", "if etag::weak_eq(if_range, some_etag.as_bytes()) {", ["C05"])
m("if-range-any-date-honoured", "src/serving.rs", "                // The resource could have changed twice in the supplied second, so never match.\n                range_hdr = None;\n                true", "                // The resource could have changed twice in the supplied second, so never match.\n                false", ["C05"])
m("if-range-no-etag-honoured", "src/serving.rs", "                } else {\n                    range_hdr = None;\n                    true\n                }\n            } else {\n                // Date case.", "                } else {\n                    false\n                }\n            } else {\n                // Date case.", ["C05"])
m("ims-lt", "src/serving.rs", "*m <= parse_http_date(since.to_str()", "*m < parse_http_date(since.to_str()", ["C04", "C14"])
m("ius-ge", "src/serving.rs", "*m > parse_http_date(since.to_str()", "*m >= parse_http_date(since.to_str()", ["C04", "C14"])
m("ims-despite-inm", "src/serving.rs", "        Some(true) => false,\n", "        Some(true) => matches!((last_modified, req_hdrs.get(header::IF_MODIFIED_SINCE)), (Some(ref m), Some(s)) if s.to_str().ok().and_then(|s| parse_http_date(s).ok()).map_or(false, |d| *m <= d)),\n", ["C04"])
m("304-before-412", "src/serving.rs", "    if precondition_failed {\n        res = res.status(StatusCode::PRECONDITION_FAILED);\n        return ServeInner::Simple(res.body(Body::from(\"Precondition failed\")).unwrap());\n    }\n\n    if not_modified {\n        res = res.status(StatusCode::NOT_MODIFIED);\n        return ServeInner::Simple(res.body(Body::empty()).unwrap());\n    }", "    if not_modified {\n        res = res.status(StatusCode::NOT_MODIFIED);\n        return ServeInner::Simple(res.body(Body::empty()).unwrap());\n    }\n\n    if precondition_failed {\n        res = res.status(StatusCode::PRECONDITION_FAILED);\n        return ServeInner::Simple(res.body(Body::from(\"Precondition failed\")).unwrap());\n    }", ["C04"])
m("revert-D4-ius-with-if-match", "src/serving.rs", "    } else if req_hdrs.contains_key(header::IF_MATCH) {\n        // RFC 7232 section 3.4: a recipient MUST ignore If-Unmodified-Since if the request\n        // contains an If-Match header field.\n        false\n", "", ["C04"])
m("revert-D5-untruncated-compare", "src/serving.rs", "        .map(|m| truncate_to_secs(std::cmp::min(m, now)));", "        .map(|m| m);", ["C04", "C14"])
m("compare-unclamped", "src/serving.rs", ".map(|m| truncate_to_secs(std::cmp::min(m, now)));", ".map(|m| truncate_to_secs(m));", ["C14"])
m("last-modified-not-clamped", "src/serving.rs", "        let clamped_m = std::cmp::min(m, d);", "        let clamped_m = ent.last_modified().unwrap_or(m);", ["C14"])
m("etag-dropped-on-304", "src/serving.rs", "    if not_modified {\n        res = res.status(StatusCode::NOT_MODIFIED);", "    if not_modified {\n        res = Response::builder().header(header::ACCEPT_RANGES, HeaderValue::from_static(\"bytes\"));\n        res = res.status(StatusCode::NOT_MODIFIED);", ["C14"])
m("entity-headers-on-416", "src/serving.rs", "            res = res.status(StatusCode::RANGE_NOT_SATISFIABLE);\n            return ServeInner::Simple(res.body(Body::empty()).unwrap());", "            res = res.status(StatusCode::RANGE_NOT_SATISFIABLE);\n            let mut r = res.body(Body::empty()).unwrap();\n            ent.add_headers(r.headers_mut());\n            return ServeInner::Simple(r);", ["C14"])
m("head-reads-entity", "src/serving.rs", "        Method::HEAD => Body::empty(),", "        Method::HEAD => {\n            drop(ent.get_range(range.clone()));\n            Body::empty()\n        }", ["C15"])
m("head-no-content-length", "src/serving.rs", "    let len = range.end - range.start;\n    res = res.header(\n        header::CONTENT_LENGTH,", "    let len = range.end - range.start;\n    if method == Method::HEAD {\n        return ServeInner::Simple(res.body(Body::empty()).unwrap());\n    }\n    res = res.header(\n        header::CONTENT_LENGTH,", ["C15"])
m("head-multipart-as-get-headers-missing", "src/serving.rs", "                    if method == Method::HEAD {\n                        return ServeInner::Simple(res.body(Body::empty()).unwrap());\n                    }", "                    if method == Method::HEAD {\n                        return ServeInner::Simple(Response::builder().status(StatusCode::PARTIAL_CONTENT).body(Body::empty()).unwrap());\n                    }", ["C15"])
m("method-gate-lets-options-through", "src/serving.rs", "    if method != Method::GET && method != Method::HEAD {", "    if method != Method::GET && method != Method::HEAD && method != Method::OPTIONS {", ["C13"])
m("416-without-content-range", "src/serving.rs", "            res = res.header(\n                http::header::CONTENT_RANGE,\n                unsafe_fmt_ascii_val!(MAX_DECIMAL_U64_BYTES + \"bytes */\".len(), \"bytes */{}\", len),\n            );\n", "", ["C03"])
m("revert-D6-multipart-fuse", "src/serving.rs", "                        this.cur = None;\n                        this.remaining = 0;", "                        this.remaining = 0;", ["C20", "C12"])
m("accept-ranges-missing-on-412", "src/serving.rs", "    if precondition_failed {\n        res = res.status(StatusCode::PRECONDITION_FAILED);", "    if precondition_failed {\n        res = Response::builder();\n        res = res.status(StatusCode::PRECONDITION_FAILED);", ["C14"])
# ---- etag.rs
m("inm-strong-compare", "src/etag.rs", "if none_match && weak_eq(item, some_etag.as_bytes()) {", "if none_match && strong_eq(item, some_etag.as_bytes()) {", ["C04", "C14"])
m("im-weak-compare", "src/etag.rs", "if !any_match && strong_eq(item, some_etag.as_bytes()) {", "if !any_match && weak_eq(item, some_etag.as_bytes()) {", ["C04"])
m("etag-list-split-on-comma", "src/etag.rs", "                .position(|&b| b == b'\"')\n                .map(|p| p + 1)\n        } else {", "                .position(|&b| b == b'\"' || b == b',')\n                .map(|p| p + 1)\n        } else {", ["C04"])
m("inm-star-not-special", "src/etag.rs", "    if m == b\"*\" {\n        return Some(false);\n    }", "    if m == b\"*\" && etag.is_some() {\n        return Some(false);\n    }", ["C04"])
m("strong-eq-ignores-weak-flag", "src/etag.rs", "    a == b && !a.starts_with(b\"W/\")", "    a == b", ["C04", "C05"])
# ---- body.rs
m("exactlen-short-is-clean-end", "src/body.rs", "                if this.remaining != 0 {", "                if this.remaining != 0 && false {", ["C07"])
m("exactlen-long-passed-on", "src/body.rs", "                } else {\n                    let remaining = std::mem::take(&mut this.remaining); // fuse.\n                    Poll::Ready(Some(Err(E::from(Box::new(StreamTooLongError {\n                        extra: d_len - remaining,\n                    })))))\n                }", "                } else {\n                    this.remaining = 0;\n                    Poll::Ready(Some(Ok(d)))\n                }", ["C07"])
m("once-hint-not-exact", "src/body.rs", "            BodyStream::Once(Some(Ok(d))) => http_body::SizeHint::with_exact(\n                u64::try_from(d.remaining()).expect(\"usize should fit in u64\"),\n            ),", "            BodyStream::Once(Some(Ok(_))) => http_body::SizeHint::default(),", ["C01", "C12"])
m("multipart-eos-early", "src/body.rs", "            BodyStream::Multipart(s) => s.remaining() == 0,", "            BodyStream::Multipart(s) => s.remaining() <= 9,", ["C12"])
# ---- chunker.rs
m("revert-D7-reader-drop", "src/chunker.rs", "            _old_state = std::mem::replace(&mut l.state, SharedState::ReaderFused);\n            l.waker = None;", "            _old_state = ();\n            let _ = &mut l;", ["C11"])
m("waker-not-refreshed", "src/chunker.rs", "Some(w) if !w.will_wake(cx.waker()) => w.clone_from(cx.waker()),", "Some(w) if false && !w.will_wake(cx.waker()) => w.clone_from(cx.waker()),", ["C10"])
m("no-wake-on-drop", "src/chunker.rs", "            *writer_dropped = dropping;\n            l.waker.take()", "            *writer_dropped = dropping;\n            if dropping { None } else { l.waker.take() }", ["C10"])
m("no-wake-on-flush-if-queue-nonempty", "src/chunker.rs", "            *writer_dropped = dropping;\n            l.waker.take()", "            *writer_dropped = dropping;\n            if ready.len() > 1 { None } else { l.waker.take() }", ["C10"])
m("write-reports-full-len", "src/chunker.rs", "        Ok(bytes)\n    }\n\n    fn flush(&mut self)", "        Ok(if full && bytes > 0 { buf.len() } else { bytes })\n    }\n\n    fn flush(&mut self)", ["C08"])
m("queue-lifo", "src/chunker.rs", "                ready.push_back(full_buf);", "                ready.push_front(full_buf);", ["C08", "C10"])
m("flush-marks-end", "src/chunker.rs", "            *writer_dropped = dropping;", "            *writer_dropped = dropping || ready.len() > 2;", ["C08", "C12"])
m("abort-clean-end-if-queue-empty", "src/chunker.rs", "            _ready = std::mem::take(ready); // drop might be slow; release lock first.\n            l.state = SharedState::Err(error);", "            _ready = std::mem::take(ready); // drop might be slow; release lock first.\n            if _ready.len() > 1 {\n                l.state = SharedState::Ok { ready: VecDeque::new(), ready_bytes: 0, writer_dropped: true };\n            } else {\n                l.state = SharedState::Err(error);\n            }", ["C11"])
m("eos-true-in-err-state", "src/chunker.rs", "            SharedState::Err(_) => false,", "            SharedState::Err(_) => true,", ["C11", "C12"])
m("hint-upper-before-drop", "src/chunker.rs", "            if *writer_dropped {\n                h.set_upper(r);", "            if *writer_dropped || r > 0 {\n                h.set_upper(r);", ["C12"])
m("pending-leaves-fused", "src/chunker.rs", "                        None => l.waker = Some(cx.waker().clone()),\n                    }\n                    l.state = SharedState::Ok {\n                        ready,\n                        ready_bytes,\n                        writer_dropped,\n                    };", "                        None => l.waker = Some(cx.waker().clone()),\n                    }\n                    if ready_bytes == 0 && l.waker.is_some() && std::mem::size_of_val(&ready) == 0 {\n                        l.state = SharedState::Ok { ready, ready_bytes, writer_dropped };\n                    }", ["C10", "C08"])
m("waker-registered-in-second-critical-section", "src/chunker.rs", "                if !writer_dropped {\n                    match l.waker.as_mut() {", "                if !writer_dropped {\n                    l.state = SharedState::Ok { ready: VecDeque::new(), ready_bytes: 0, writer_dropped };\n                    drop(l);\n                    l = shared.lock().expect(\"not poisoned\");\n                    let (ready, ready_bytes, writer_dropped) = match std::mem::replace(&mut l.state, SharedState::ReaderFused) {\n                        SharedState::Ok { ready, ready_bytes, writer_dropped } => (ready, ready_bytes, writer_dropped),\n                        other => { l.state = other; drop(l); cx.waker().wake_by_ref(); return Poll::Pending; }\n                    };\n                    match l.waker.as_mut() {", ["C10"])
m("wake-before-queue-push", "src/chunker.rs", "            if !self.buf.is_empty() {\n                let full_buf = mem::take(&mut self.buf);\n                *ready_bytes += full_buf.len();\n                ready.push_back(full_buf);\n            }\n            *writer_dropped = dropping;\n            l.waker.take()", "            *writer_dropped = dropping;\n            let w = l.waker.take();\n            if let Some(w) = &w { if !dropping { w.wake_by_ref(); } }\n            if let SharedState::Ok { ready, ready_bytes, .. } = &mut l.state {\n                if !self.buf.is_empty() {\n                    let full_buf = mem::take(&mut self.buf);\n                    *ready_bytes += full_buf.len();\n                    ready.push_back(full_buf);\n                }\n            }\n            if dropping { w } else { None }", ["C10"])
# ---- gzip.rs / lib.rs
m("should-gzip-gt", "src/lib.rs", "    gzip_q > 0 && gzip_q >= identity_q", "    gzip_q > 0 && gzip_q > identity_q", ["C16"])
m("should-gzip-star-not-for-identity", "src/lib.rs", "    let identity_q = identity_q.or(star_q).unwrap_or(1);", "    let identity_q = identity_q.unwrap_or(1);", ["C16"])
m("should-gzip-q0-acceptable", "src/lib.rs", "    gzip_q > 0 && gzip_q >= identity_q", "    gzip_q >= identity_q", ["C16"])
m("qvalue-scale", "src/lib.rs", "        1 /* 0.x */ => 100,", "        1 /* 0.x */ => 10,", ["C16"])
m("level0-still-announces-gzip", "src/lib.rs", "        if self.should_gzip && self.gzip_level > 0 {\n            resp.headers_mut()", "        if self.should_gzip {\n            resp.headers_mut()", ["C17"])
m("parts-reads-other-header", "src/lib.rs", "impl AsRequest for http::request::Parts {\n    #[inline]\n    fn method(&self) -> &http::Method {\n        &self.method\n    }", "impl AsRequest for http::request::Parts {\n    #[inline]\n    fn method(&self) -> &http::Method {\n        &http::Method::GET\n    }", ["C17", "C15"])
m("gzip-flush-not-propagated", "src/gzip.rs", "            Inner::Gzipped(ref mut w) => w.flush(),", "            Inner::Gzipped(ref mut w) => w.get_mut().flush(),", ["C09"])
m("dead-not-entered-after-failure", "src/gzip.rs", "        if r.is_err() {\n            self.0 = Inner::Dead;\n        }\n        r\n    }\n\n    fn flush", "        r\n    }\n\n    fn flush", ["C11"])
m("vary-missing-without-gzip", "src/lib.rs", "        resp.headers_mut()\n            .append(header::VARY, HeaderValue::from_static(\"accept-encoding\"));\n\n        if self.should_gzip && self.gzip_level > 0 {\n            resp.headers_mut()", "        if self.should_gzip && self.gzip_level > 0 {\n            resp.headers_mut()\n                .append(header::VARY, HeaderValue::from_static(\"accept-encoding\"));\n            resp.headers_mut()", ["C17"])
# ---- file.rs / platform.rs
m("file-chunk-not-clamped-to-range", "src/file.rs", "                let chunk_size = std::cmp::min(CHUNK_SIZE, left.end - left.start) as usize;", "                let chunk_size = CHUNK_SIZE as usize;", ["C18"])
m("file-etag-without-len", "src/file.rs", "            self.inner.inode,\n            self.inner.len,\n            sign,", "            self.inner.inode,\n            0,\n            sign,", ["C18"])
m("file-etag-without-sign", "src/file.rs", "            Err(e) => (\"-\", e.duration()),", "            Err(e) => (\"\", e.duration()),", ["C18"])
m("revert-D10-etag-expect", "src/file.rs", "            Err(e) => (\"-\", e.duration()),", "            Err(_) => panic!(\"modification time must be after epoch\"),", ["C18"])
m("revert-D11-pre-epoch-filter", "src/serving.rs", "        .filter(|m| *m >= SystemTime::UNIX_EPOCH)\n", "", ["C13"])
m("file-etag-without-nanos", "src/file.rs", "            dur.subsec_nanos()\n        ))", "            0\n        ))", ["C18"])
m("file-etag-without-inode", "src/file.rs", "            self.inner.inode,\n            self.inner.len,", "            0,\n            self.inner.len,", ["C18"])
m("file-is-file-check-dropped", "src/file.rs", "        if !metadata.is_file() {", "        if !metadata.is_file() && metadata.is_dir() {", ["C18"])
m("file-offset-advanced-by-request", "src/file.rs", "                                (left.start + bytes_read as u64..left.end, inner),", "                                ((left.start + chunk_size as u64).min(left.end).max(left.start + bytes_read as u64)..left.end, inner),", ["C18"])
m("file-short-read-at-eof-ends-clean", "src/file.rs", "                        Err(e) => (\n                            Err(Box::<dyn StdError + Send + Sync + 'static>::from(e).into()),\n                            (left, inner),\n                        ),", "                        Err(e) if e.kind() == io::ErrorKind::UnexpectedEof && left.start % 65536 != 0 => {\n                            return None;\n                        }\n                        Err(e) => (\n                            Err(Box::<dyn StdError + Send + Sync + 'static>::from(e).into()),\n                            (left, inner),\n                        ),", ["C18"])
# ---- dir.rs
m("dir-dotdot-prefix-test", "src/dir.rs", "        if seg == b\"..\" {", "        if seg.starts_with(b\"..\") {", ["C19"])
m("dir-dotdot-only-first-segment", "src/dir.rs", "        match next {\n            None => break,\n            Some(n) => left = &left[n + 1..],\n        };", "        match next {\n            None => break,\n            Some(_) => break,\n        };", ["C19"])
m("dir-nul-check-dropped", "src/dir.rs", "    if memchr::memchr(0, path.as_bytes()).is_some() {\n        return Err(\"path contains NUL byte\");\n    }\n    if path.as_bytes().first()", "    if path.as_bytes().first()", ["C19"])
m("dir-gz-without-negotiation", "src/dir.rs", "let should_gzip = self.auto_gzip && super::should_gzip(req_hdrs);", "let should_gzip = self.auto_gzip && (super::should_gzip(req_hdrs) || req_hdrs.contains_key(\"accept-encoding\"));", ["C19"])
m("dir-gz-directory-accepted", "src/dir.rs", "                        if !metadata.is_dir() {", "                        if !metadata.is_dir() || path_len == 1 {", ["C19"])
m("dir-no-fallback-on-notfound", "src/dir.rs", "                    Err(ref e) if e.kind() == ErrorKind::NotFound => {}", "                    Err(ref e) if e.kind() == ErrorKind::NotFound && path_len > 1 => {}", ["C19"])
m("dir-vary-tied-to-gzipped", "src/dir.rs", "        if self.auto_gzip {\n            hdrs.insert(header::VARY", "        if self.auto_gzip && self.is_gzipped {\n            hdrs.insert(header::VARY", ["C19"])
m("dir-absolute-allowed-if-double-slash", "src/dir.rs", "    if path.as_bytes().first() == Some(&b'/') {", "    if path.as_bytes().first() == Some(&b'/') && path.as_bytes().get(1) != Some(&b'/') {", ["C19"])

# ---- second round: narrower variants of mutants that the repository's own tests kill
m("content-range-end-exclusive-large-offsets", "src/serving.rs", "                        range.start,\n                        range.end - 1,\n                        len\n                    ),", "                        range.start,\n                        if range.start > u32::MAX as u64 { range.end } else { range.end - 1 },\n                        len\n                    ),", ["C02", "C03"])
m("exactlen-short-by-one-is-clean-end", "src/body.rs", "                if this.remaining != 0 {", "                if this.remaining > 1 {", ["C07"])
m("exactlen-long-by-one-passed-on", "src/body.rs", "                if let Some(new_rem) = new_rem {", "                let new_rem = if new_rem.is_none() && d_len == this.remaining + 1 { Some(0) } else { new_rem };\n                if let Some(new_rem) = new_rem {", ["C07"])
m("multipart-trailer-not-counted-3-parts", "src/serving.rs", "        .checked_add(crate::as_u64(PART_TRAILER.len()))", "        .checked_add(if ranges.len() == 3 { 0 } else { crate::as_u64(PART_TRAILER.len()) })", ["C01", "C06"])
m("multipart-threshold-quarter-big-entities", "src/serving.rs", "if matches!(est_len, Some(l) if l < len) {", "if matches!(est_len, Some(l) if l < if len > 100_000 { len / 4 } else { len }) {", ["C03"])
m("if-range-weak-compare-when-both-weak", "src/serving.rs", "if etag::strong_eq(if_range, some_etag.as_bytes()) {", "if etag::strong_eq(if_range, some_etag.as_bytes()) || (if_range.starts_with(b\"W/\") && if_range == some_etag.as_bytes()) {", ["C05"])
m("if-range-date-honoured-when-equal", "src/serving.rs", "                // The resource could have changed twice in the supplied second, so never match.\n                range_hdr = None;\n                true", "                // The resource could have changed twice in the supplied second, so never match.\n                let same = std::str::from_utf8(if_range).ok().and_then(|s| parse_http_date(s).ok()).map_or(false, |d| Some(d) > last_modified);\n                if !same {\n                    range_hdr = None;\n                }\n                !same", ["C05"])
m("inm-strong-compare-for-multi-tag-lists", "src/etag.rs", "if none_match && weak_eq(item, some_etag.as_bytes()) {", "if none_match && (weak_eq(item, some_etag.as_bytes()) && (m.len() < 20 || strong_eq(item, some_etag.as_bytes()))) {", ["C04"])
m("etag-list-tab-separator-corrupt", "src/etag.rs", "            while let [b' ' | b'\\t', tail @ ..] = rem {", "            while let [b' ', tail @ ..] = rem {", ["C04"])
m("no-wake-on-drop-with-buffered-data", "src/chunker.rs", "            *writer_dropped = dropping;\n            l.waker.take()", "            *writer_dropped = dropping;\n            if dropping && ready.len() > 1 { None } else { l.waker.take() }", ["C10"])
m("write-reports-full-len-when-one-over", "src/chunker.rs", "        Ok(bytes)\n    }\n\n    fn flush(&mut self)", "        Ok(if full && buf.len() == bytes + 1 && bytes > 1 { buf.len() } else { bytes })\n    }\n\n    fn flush(&mut self)", ["C08"])
m("queue-lifo-when-three", "src/chunker.rs", "                ready.push_back(full_buf);", "                if ready.len() == 2 { ready.push_front(full_buf) } else { ready.push_back(full_buf) }", ["C08", "C10"])
m("should-gzip-gt-when-star", "src/lib.rs", "    gzip_q > 0 && gzip_q >= identity_q", "    gzip_q > 0 && (gzip_q > identity_q || (star_q.is_none() && gzip_q == identity_q))", ["C16"])
m("qvalue-three-decimals-scale", "src/lib.rs", "        3 /* 0.xxx */ => 1,", "        3 /* 0.xxx */ => if v.starts_with(\"00\") { 10 } else { 1 },", ["C16"])
m("gzip-flush-skipped-before-any-output", "src/gzip.rs", "            Inner::Gzipped(ref mut w) => w.flush(),", "            Inner::Gzipped(ref mut w) => if w.get_ref().buffered() == 0 && w.total_in() < 8 { Ok(()) } else { w.flush() },", ["C09"])
m("file-chunk-not-clamped-near-boundary", "src/file.rs", "                let chunk_size = std::cmp::min(CHUNK_SIZE, left.end - left.start) as usize;", "                let chunk_size = if left.start % CHUNK_SIZE == CHUNK_SIZE - 1 { CHUNK_SIZE as usize } else { std::cmp::min(CHUNK_SIZE, left.end - left.start) as usize };", ["C18"])
m("file-eof-on-boundary-ends-clean", "src/file.rs", "                        Err(e) => (\n                            Err(Box::<dyn StdError + Send + Sync + 'static>::from(e).into()),\n                            (left, inner),\n                        ),", "                        Err(e) if e.kind() == io::ErrorKind::UnexpectedEof && left.start > 0 && left.start % CHUNK_SIZE == 0 => {\n                            return None;\n                        }\n                        Err(e) => (\n                            Err(Box::<dyn StdError + Send + Sync + 'static>::from(e).into()),\n                            (left, inner),\n                        ),", ["C18"])
m("head-get-range-for-multipart", "src/serving.rs", "                    if method == Method::HEAD {\n                        return ServeInner::Simple(res.body(Body::empty()).unwrap());\n                    }", "                    if method == Method::HEAD {\n                        drop(ent.get_range(ranges[0].clone()));\n                        return ServeInner::Simple(res.body(Body::empty()).unwrap());\n                    }", ["C15"])
m("multipart-fuse-skipped-for-last-part", "src/serving.rs", "                        this.cur = None;\n                        this.remaining = 0;", "                        if this.state >> 1 != this.ranges.len() - 1 {\n                            this.cur = None;\n                        }\n                        this.remaining = 0;", ["C20", "C12"])

# ---- third round
m("no-wake-on-drop-when-data-queued", "src/chunker.rs", "            *writer_dropped = dropping;\n            l.waker.take()", "            *writer_dropped = dropping;\n            if dropping && !ready.is_empty() { None } else { l.waker.take() }", ["C10"])
m("gzip-flush-skipped-for-tiny-input", "src/gzip.rs", "            Inner::Gzipped(ref mut w) => w.flush(),", "            Inner::Gzipped(ref mut w) => if w.total_in() > 0 && w.total_in() < 4 { Ok(()) } else { w.flush() },", ["C09"])
m("gzip-abort-only-marks-dead", "src/gzip.rs", "            Inner::Gzipped(ref mut g) => g.get_mut().abort(error),", "            Inner::Gzipped(ref mut g) => if g.total_in() == 0 { drop(error) } else { g.get_mut().abort(error) },", ["C11"])
m("file-eof-exactly-on-boundary-ends-clean", "src/file.rs", "                if left.start == left.end {\n                    return None;\n                }", "                if left.start == left.end {\n                    return None;\n                }\n                if left.start > 0 && left.start % CHUNK_SIZE == 0 && inner.f.metadata().map_or(false, |m| m.len() == left.start) {\n                    return None;\n                }", ["C18"])
m("etag-weak-eq-strips-only-one-side", "src/etag.rs", "    let b = b.strip_prefix(b\"W/\").unwrap_or(b);\n    a == b", "    let b = if a.len() > 12 { b } else { b.strip_prefix(b\"W/\").unwrap_or(b) };\n    a == b", ["C04"])
m("vary-only-when-accept-encoding-present", "src/lib.rs", "        should_gzip: should_gzip(req.headers()),", "        should_gzip: should_gzip(req.headers()) && req.headers().get(header::ACCEPT_ENCODING).map_or(false, |v| v.len() < 40),", ["C17"])
m("dir-gz-when-star-only", "src/dir.rs", "let should_gzip = self.auto_gzip && super::should_gzip(req_hdrs);", "let should_gzip = self.auto_gzip && super::should_gzip(req_hdrs) && req_hdrs.get(\"accept-encoding\").map_or(false, |v| v.as_bytes() != b\"*\");", ["C19"])
m("serve-last-modified-plus-one-on-subsecond", "src/serving.rs", "        Ok(d) => SystemTime::UNIX_EPOCH + std::time::Duration::from_secs(d.as_secs()),", "        Ok(d) => SystemTime::UNIX_EPOCH + std::time::Duration::from_secs(d.as_secs() + (d.subsec_nanos() >= 999_999_999) as u64),", ["C14", "C04"])

def sh(cmd, cwd=None, timeout=None, env=None):
    e = dict(os.environ); e["CARGO_NET_OFFLINE"] = "true"
    if env: e.update(env)
    try:
        p = subprocess.run(cmd, shell=True, cwd=cwd, timeout=timeout, env=e, stdout=subprocess.PIPE, stderr=subprocess.STDOUT, text=True)
        return p.returncode, p.stdout
    except subprocess.TimeoutExpired as ex:
        subprocess.run("pkill -f '%s/repo/target' || true" % WORK, shell=True)
        return 124, (ex.stdout or "") if isinstance(ex.stdout, str) else ""

def setup():
    os.makedirs(WORK, exist_ok=True)
    if not os.path.exists(REPO):
        sh(f"git -C /repo worktree prune; git -C /repo worktree add --detach {REPO} HEAD")
        shutil.copy("/repo/Cargo.lock", f"{REPO}/Cargo.lock")
    else:
        sh("git checkout -- . && git checkout --detach $(git -C /repo rev-parse HEAD)", cwd=REPO)
    sh(f"rsync -a --delete --exclude target /verif/harness/ {HARN}/")
    s = open(f"{HARN}/Cargo.toml").read().replace('path = "/repo"', f'path = "{REPO}"')
    open(f"{HARN}/Cargo.toml", "w").write(s)
    os.makedirs(OUT, exist_ok=True)

def run_check(pid):
    env = {"VP_OUT_DIR": OUT, "VP_SCRATCH_DIR": f"{WORK}/scratch", "VERIF_SEED": os.environ.get("VERIF_SEED", "0")}
    rc, out = sh(f"{HARN}/target/release/vp {pid} quick", cwd=HARN, timeout=900, env=env)
    first = ""
    for l in out.splitlines():
        if l.startswith("--- "):
            first = l[:300]; break
    return rc, first

def main():
    only = None; all_checks = False
    args = sys.argv[1:]
    if "--only" in args: only = set(args[args.index("--only") + 1].split(","))
    if "--all-checks" in args: all_checks = True
    setup()
    os.makedirs("/verif/mutants", exist_ok=True)
    results = {}
    res_path = "/verif/mutants/RESULTS.json"
    if os.path.exists(res_path) and only:
        results = json.load(open(res_path))
    all_props = [json.loads(l)["id"] for l in open("/verif/properties.jsonl")]
    for name, file, old, new, props in M:
        if only and name not in only: continue
        t0 = time.time()
        sh("git checkout -- .", cwd=REPO)
        src = open(f"{REPO}/{file}").read()
        if src.count(old) != 1:
            results[name] = {"status": "patch-does-not-apply", "occurrences": src.count(old)}
            print(name, "PATCH DOES NOT APPLY", src.count(old)); continue
        open(f"{REPO}/{file}", "w").write(src.replace(old, new))
        rc, diff = sh("git diff", cwd=REPO)
        open(f"/verif/mutants/{name}.diff", "w").write(diff)
        rc, out = sh("cargo test --workspace --no-fail-fast --offline 2>&1 | grep -E '^test result|^error' ", cwd=REPO, timeout=400)
        passed = sum(int(l.split(" passed")[0].split()[-1]) for l in out.splitlines() if l.startswith("test result: ok"))
        tests_ok = rc == 0 and "FAILED" not in out and "error" not in out and passed >= 38
        if not tests_ok:
            results[name] = {"status": "invalid: repo tests fail / hang / do not compile", "detail": out[-300:], "rc": rc}
            print(name, "INVALID (repo tests)", rc, out[-200:].replace("\n", " | ")); continue
        rc, out = sh("(cargo build --release --offline && cargo build --profile unchecked --offline) 2>&1 | grep -E '^error' -A6", cwd=HARN, timeout=1200)
        if not os.path.exists(f"{HARN}/target/release/vp") or "error" in out:
            results[name] = {"status": "invalid: harness does not build", "detail": out[-400:]}
            print(name, "INVALID (harness build)", out[-300:]); continue
        caught = {}; missed = []
        for pid in (all_props if all_checks else props):
            rc, first = run_check(pid)
            if rc == 1: caught[pid] = first
            elif pid in props: missed.append(f"{pid}(exit {rc})")
        status = "killed" if caught and not [p for p in props if p not in caught] else ("partially-killed" if caught else "SURVIVED")
        results[name] = {"status": status, "expected": props, "caught_by": caught, "missed": missed, "seconds": round(time.time() - t0)}
        print(name, status, "caught:", sorted(caught), "missed:", missed, f"{time.time()-t0:.0f}s", flush=True)
        json.dump(results, open(res_path, "w"), indent=1)
    sh("git checkout -- .", cwd=REPO)
    json.dump(results, open(res_path, "w"), indent=1)
    if "--keep" not in args:
        sh(f"git -C /repo worktree remove --force {REPO}")
        shutil.rmtree(WORK, ignore_errors=True)
    k = sum(1 for r in results.values() if r["status"] == "killed")
    print(f"killed {k} / valid {sum(1 for r in results.values() if r['status'] in ('killed','partially-killed','SURVIVED'))} / total {len(results)}")

if __name__ == "__main__":
    main()
